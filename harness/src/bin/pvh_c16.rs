//! C16 harness: repr of text and bytes through the real `rustpython_literal::escape` helpers and
//! `Constant`'s `Display`, decoded back through the real parser.
//!
//!   reprs  <hex text> <printable>                 UnicodeEscape::new_repr
//!   reprq  <ps|pd|fs|fd> <hex text> <printable>   with_preferred_quote / with_forced_quote
//!   reprb  <hex bytes>                            AsciiEscape::new_repr
//!   reprbq <ps|pd|fs|fd> <hex bytes>
//!   named  <hex bytes> <name length>              AsciiEscape::new(b, AsciiEscape::named_repr_layout(b, name))
//!                                                 (name lengths up to isize::MAX - 5: see `fake_name`)
//! Every repr answer also carries `fmt=`: the same text through the `Display` impl (`fmt` -> `write`
//! on a `Formatter`), `same` when equal; `reprb` has `new=` (the text through `AsciiEscape::new`
//! with the layout of `AsciiEscape::repr_layout`).
//!   cls <hex text>            -> the non-ASCII code points of the text that the real
//!                                `char::is_printable` calls printable (decimal, comma separated)
//!   printable <lo> <hi>       -> maximal ranges of printable scalar values in [lo, hi]
//!
//! `<printable>` is the `cls` answer for the same text, attached to the request so that the Lean
//! model (for which printability is a parameter) can be run on the same line; here it is only
//! checked against the real function (`cls=ok|stale`).
use pvh::*;
use rustpython_ast::{Constant, Expr};
use rustpython_literal::char::is_printable;
use rustpython_literal::escape::{AsciiEscape, Escape, EscapeLayout, Quote, UnicodeEscape};
use rustpython_parser::Parse;

fn qname(q: Quote) -> &'static str {
    match q {
        Quote::Single => "s",
        Quote::Double => "d",
    }
}

fn show_layout(l: &EscapeLayout, changed: bool) -> String {
    format!(
        "q={} len={} changed={}",
        qname(l.quote),
        opt(l.len, |n| n.to_string()),
        changed
    )
}

fn classify(s: &str) -> String {
    let mut v: Vec<u32> = s
        .chars()
        .filter(|c| !c.is_ascii() && is_printable(*c))
        .map(|c| c as u32)
        .collect();
    v.sort();
    v.dedup();
    if v.is_empty() {
        "-".to_string()
    } else {
        v.iter().map(|c| c.to_string()).collect::<Vec<_>>().join(",")
    }
}

/// the attached list is exactly the real classification of the text's non-ASCII characters
fn cls_ok(s: &str, pl: &str) -> &'static str {
    let mut given: Vec<&str> = if pl == "-" { vec![] } else { pl.split(',').collect() };
    given.sort();
    given.dedup();
    let real = classify(s);
    let mut real: Vec<&str> = if real == "-" { vec![] } else { real.split(',').collect() };
    real.sort();
    if given == real {
        "ok"
    } else {
        "stale"
    }
}

/// parse `repr` as an expression with the real parser; is it the constant `want`?
fn round_trip(repr: &str, want: &Constant) -> &'static str {
    match guard(|| Expr::parse(repr, "<c16>")) {
        None => "panic",
        Some(Ok(Expr::Constant(c))) => {
            if &c.value == want {
                "ok"
            } else {
                "bad"
            }
        }
        Some(_) => "bad",
    }
}

fn written(f: impl FnOnce(&mut String) -> std::fmt::Result) -> String {
    let mut out = String::new();
    f(&mut out).unwrap();
    out
}

/// `same`, or the hex of the differing text
fn same_or_hex(got: &str, want: &str) -> String {
    if got == want {
        "same".to_string()
    } else {
        hex(got.as_bytes())
    }
}

/// A `&str` of the given length for `named_repr_layout`, which only reads `name.len()`.
/// Short names are real; long ones (no allocation of that size exists) are a length over a
/// dangling pointer that is never dereferenced.
fn fake_name(n: usize) -> &'static str {
    if n <= 4096 {
        Box::leak("x".repeat(n).into_boxed_str())
    } else {
        unsafe {
            std::str::from_utf8_unchecked(std::slice::from_raw_parts(
                std::ptr::NonNull::<u8>::dangling().as_ptr(),
                n,
            ))
        }
    }
}

fn named(b: &[u8], name_len: usize) -> String {
    let name = fake_name(name_len);
    let esc = AsciiEscape::new(b, AsciiEscape::named_repr_layout(b, name));
    let repr = written(|o| esc.bytes_repr().write(o));
    let fmt = format!("{}", esc.bytes_repr());
    format!(
        "{} repr={} rt={} fmt={}",
        show_layout(esc.layout(), esc.changed()),
        hex(repr.as_bytes()),
        round_trip(&repr, &Constant::Bytes(b.to_vec())),
        same_or_hex(&fmt, &repr)
    )
}

fn reprs(s: &str, pl: &str) -> String {
    let esc = UnicodeEscape::new_repr(s);
    let repr = written(|o| esc.str_repr().write(o));
    let tostr = match esc.str_repr().to_string() {
        None => "none",
        Some(t) => {
            if t == repr {
                "same"
            } else {
                "diff"
            }
        }
    };
    let c = Constant::Str(s.to_string());
    let disp = match guard(|| c.to_string()) {
        None => "panic".to_string(),
        Some(d) => {
            if d == repr {
                "eq".to_string()
            } else {
                hex(d.as_bytes()) // shown so that the oracle can judge the displayed text itself
            }
        }
    };
    let fmt = format!("{}", esc.str_repr());
    format!(
        "{} repr={} tostr={} rt={} disp={} cls={} fmt={}",
        show_layout(esc.layout(), esc.changed()),
        hex(repr.as_bytes()),
        tostr,
        round_trip(&repr, &c),
        disp,
        cls_ok(s, pl),
        same_or_hex(&fmt, &repr)
    )
}

fn reprq(mode: &str, s: &str, pl: &str) -> String {
    let esc = match mode {
        "ps" => UnicodeEscape::with_preferred_quote(s, Quote::Single),
        "pd" => UnicodeEscape::with_preferred_quote(s, Quote::Double),
        "fs" => UnicodeEscape::with_forced_quote(s, Quote::Single),
        "fd" => UnicodeEscape::with_forced_quote(s, Quote::Double),
        _ => return "bad-request".into(),
    };
    let repr = written(|o| esc.str_repr().write(o));
    let fmt = format!("{}", esc.str_repr());
    format!(
        "{} repr={} rt={} cls={} fmt={}",
        show_layout(esc.layout(), esc.changed()),
        hex(repr.as_bytes()),
        round_trip(&repr, &Constant::Str(s.to_string())),
        cls_ok(s, pl),
        same_or_hex(&fmt, &repr)
    )
}

fn reprb(b: &[u8]) -> String {
    let esc = AsciiEscape::new_repr(b);
    let repr = written(|o| esc.bytes_repr().write(o));
    let tostr = match esc.bytes_repr().to_string() {
        None => "none",
        Some(t) => {
            if t == repr {
                "same"
            } else {
                "diff"
            }
        }
    };
    let c = Constant::Bytes(b.to_vec());
    let disp = match guard(|| c.to_string()) {
        None => "panic".to_string(),
        Some(d) => {
            if d == repr {
                "eq".to_string()
            } else {
                hex(d.as_bytes()) // shown so that the oracle can judge the displayed text itself
            }
        }
    };
    let fmt = format!("{}", esc.bytes_repr());
    let via_new = AsciiEscape::new(b, AsciiEscape::repr_layout(b, Quote::Single));
    let new = written(|o| via_new.bytes_repr().write(o));
    format!(
        "{} repr={} tostr={} rt={} disp={} fmt={} new={}",
        show_layout(esc.layout(), esc.changed()),
        hex(repr.as_bytes()),
        tostr,
        round_trip(&repr, &c),
        disp,
        same_or_hex(&fmt, &repr),
        same_or_hex(&new, &repr)
    )
}

fn reprbq(mode: &str, b: &[u8]) -> String {
    let esc = match mode {
        "ps" => AsciiEscape::with_preferred_quote(b, Quote::Single),
        "pd" => AsciiEscape::with_preferred_quote(b, Quote::Double),
        "fs" => AsciiEscape::with_forced_quote(b, Quote::Single),
        "fd" => AsciiEscape::with_forced_quote(b, Quote::Double),
        _ => return "bad-request".into(),
    };
    let repr = written(|o| esc.bytes_repr().write(o));
    let fmt = format!("{}", esc.bytes_repr());
    format!(
        "{} repr={} rt={} fmt={}",
        show_layout(esc.layout(), esc.changed()),
        hex(repr.as_bytes()),
        round_trip(&repr, &Constant::Bytes(b.to_vec())),
        same_or_hex(&fmt, &repr)
    )
}

fn printable_ranges(lo: u32, hi: u32) -> String {
    let mut out: Vec<String> = Vec::new();
    let mut start: Option<u32> = None;
    let mut prev = 0u32;
    for cp in lo..=hi {
        let p = match char::from_u32(cp) {
            Some(c) => is_printable(c),
            None => false, // surrogates are not scalar values
        };
        if p {
            if start.is_none() {
                start = Some(cp);
            }
            prev = cp;
        } else if let Some(s) = start.take() {
            out.push(format!("{}-{}", s, prev));
        }
    }
    if let Some(s) = start {
        out.push(format!("{}-{}", s, prev));
    }
    if out.is_empty() {
        "-".into()
    } else {
        out.join(",")
    }
}

fn handle(ws: &[&str]) -> String {
    let bad = || "bad-request".to_string();
    match ws {
        ["reprs", t, pl] => match unhex_str(t) {
            Some(s) => reprs(&s, pl),
            None => bad(),
        },
        ["reprq", mode, t, pl] => match unhex_str(t) {
            Some(s) => reprq(mode, &s, pl),
            None => bad(),
        },
        ["reprb", t] => match unhex(t) {
            Some(b) => reprb(&b),
            None => bad(),
        },
        ["reprbq", mode, t] => match unhex(t) {
            Some(b) => reprbq(mode, &b),
            None => bad(),
        },
        ["named", t, n] => match (unhex(t), n.parse::<usize>()) {
            // below isize::MAX - 5 the `as isize` casts of the length checker are the identity
            (Some(b), Ok(n)) if n <= isize::MAX as usize - 5 => named(&b, n),
            _ => bad(),
        },
        ["cls", t] => match unhex_str(t) {
            Some(s) => classify(&s),
            None => bad(),
        },
        ["printable", lo, hi] => match (lo.parse::<u32>(), hi.parse::<u32>()) {
            (Ok(lo), Ok(hi)) if lo <= hi && hi <= 0x10FFFF => printable_ranges(lo, hi),
            _ => bad(),
        },
        _ => bad(),
    }
}

fn main() {
    proto_loop(handle);
}
