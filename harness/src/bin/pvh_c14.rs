//! C14 harness: Arguments <-> PythonArguments conversions of rustpython-ast (default feature set).
//!
//! A signature travels as five `;`-separated fields `posonly;args;vararg;kwonly;kwarg`; a list is
//! `-` or comma separated parameters; a parameter is `N`, `N:A`, `N=D` or `N:A=D` (N name id,
//! A annotation id, D default id, all decimal).  The Python-style form has seven fields
//! `posonly;args;defaults;vararg;kwonly;kw_defaults;kwarg` (parameters `N` / `N:A`, defaults `D`).
//!
//! Real values: name id N is the identifier `pN`, annotation id A the expression `tA`
//! (`Expr::Name`), default id D the integer constant `D`.
//!
//!   rt <mode> <sig>       Arguments -> PythonArguments -> Arguments, three routes
//!   topy <mode> <sig>     Arguments -> PythonArguments, three routes
//!   intoargs <pysig>      hand-built PythonArguments -> Arguments
//! mode `b`: the structs are built directly; mode `p`: `def f(<sig>): pass` is parsed with
//! rustpython_parser and the function's `args` are taken.
use pvh::*;
use rustpython_ast as ast;
use rustpython_ast::text_size::TextRange;
use rustpython_parser::Parse;

type Arguments = ast::Arguments<TextRange>;
type PyArguments = ast::PythonArguments<TextRange>;
type Arg = ast::Arg<TextRange>;
type Expr = ast::Expr<TextRange>;

// ------------------------------------------------------------------ request side

struct P {
    name: u64,
    ann: Option<u64>,
    default: Option<u64>,
}

fn parse_param(s: &str) -> Option<P> {
    let (head, default) = match s.split_once('=') {
        Some((h, d)) => (h, Some(d.parse().ok()?)),
        None => (s, None),
    };
    let (name, ann) = match head.split_once(':') {
        Some((n, a)) => (n, Some(a.parse().ok()?)),
        None => (head, None),
    };
    Some(P {
        name: name.parse().ok()?,
        ann,
        default,
    })
}

fn parse_list<T>(s: &str, f: impl Fn(&str) -> Option<T>) -> Option<Vec<T>> {
    if s == "-" {
        return Some(Vec::new());
    }
    s.split(',').map(f).collect()
}

fn parse_opt(s: &str) -> Option<Option<P>> {
    if s == "-" {
        return Some(None);
    }
    let p = parse_param(s)?;
    if p.default.is_some() {
        return None;
    }
    Some(Some(p))
}

fn mk_ann(a: u64) -> Expr {
    Expr::Name(ast::ExprName {
        range: TextRange::default(),
        id: ast::Identifier::new(format!("t{a}")),
        ctx: ast::ExprContext::Load,
    })
}

fn mk_default(d: u64) -> Expr {
    Expr::Constant(ast::ExprConstant {
        range: TextRange::default(),
        value: ast::Constant::Int(d.into()),
        kind: None,
    })
}

fn mk_arg(p: &P) -> Arg {
    ast::Arg {
        // every field of the parameter node is made observable: the range is derived from the name id and an
        // annotated parameter also carries a type comment derived from the annotation id, so that a conversion which
        // drops or swaps ANY part of a parameter (not only name / annotation / default) changes the printed form
        range: TextRange::new((p.name as u32 * 10).into(), (p.name as u32 * 10 + 3).into()),
        arg: ast::Identifier::new(format!("p{}", p.name)),
        annotation: p.ann.map(|a| Box::new(mk_ann(a))),
        type_comment: p.ann.map(|a| format!("c{a}")),
    }
}

fn mk_awd(p: &P) -> ast::ArgWithDefault<TextRange> {
    ast::ArgWithDefault {
        range: Default::default(),
        def: mk_arg(p),
        default: p.default.map(|d| Box::new(mk_default(d))),
    }
}

struct Sig {
    posonly: Vec<P>,
    args: Vec<P>,
    vararg: Option<P>,
    kwonly: Vec<P>,
    kwarg: Option<P>,
}

fn parse_sig(s: &str) -> Option<Sig> {
    let f: Vec<&str> = s.split(';').collect();
    if f.len() != 5 {
        return None;
    }
    Some(Sig {
        posonly: parse_list(f[0], parse_param)?,
        args: parse_list(f[1], parse_param)?,
        vararg: parse_opt(f[2])?,
        kwonly: parse_list(f[3], parse_param)?,
        kwarg: parse_opt(f[4])?,
    })
}

fn build(sig: &Sig) -> Arguments {
    ast::Arguments {
        range: Default::default(),
        posonlyargs: sig.posonly.iter().map(mk_awd).collect(),
        args: sig.args.iter().map(mk_awd).collect(),
        vararg: sig.vararg.as_ref().map(|p| Box::new(mk_arg(p))),
        kwonlyargs: sig.kwonly.iter().map(mk_awd).collect(),
        kwarg: sig.kwarg.as_ref().map(|p| Box::new(mk_arg(p))),
    }
}

fn src_param(p: &P) -> String {
    let mut s = format!("p{}", p.name);
    if let Some(a) = p.ann {
        s.push_str(&format!(": t{a}"));
    }
    if let Some(d) = p.default {
        s.push_str(&format!(" = {d}"));
    }
    s
}

/// Python source of the signature (the caller only sends signatures Python accepts).
fn source(sig: &Sig) -> String {
    let mut parts: Vec<String> = Vec::new();
    for p in &sig.posonly {
        parts.push(src_param(p));
    }
    if !sig.posonly.is_empty() {
        parts.push("/".into());
    }
    for p in &sig.args {
        parts.push(src_param(p));
    }
    match &sig.vararg {
        Some(v) => parts.push(format!("*{}", src_param(v))),
        None if !sig.kwonly.is_empty() => parts.push("*".into()),
        None => {}
    }
    for p in &sig.kwonly {
        parts.push(src_param(p));
    }
    if let Some(k) = &sig.kwarg {
        parts.push(format!("**{}", src_param(k)));
    }
    format!("def f({}): pass\n", parts.join(", "))
}

fn parsed(sig: &Sig) -> Option<Arguments> {
    let src = source(sig);
    let suite = ast::Suite::parse(&src, "<c14>").ok()?;
    match suite.into_iter().next()? {
        ast::Stmt::FunctionDef(f) => Some(*f.args),
        _ => None,
    }
}

fn obtain(mode: &str, sig: &Sig) -> Option<Arguments> {
    match mode {
        "b" => Some(build(sig)),
        "p" => parsed(sig),
        _ => None,
    }
}

// ------------------------------------------------------------------ canonical descriptions

fn id_of(s: &str, prefix: char) -> String {
    match s.strip_prefix(prefix).and_then(|r| r.parse::<u64>().ok()) {
        Some(n) => n.to_string(),
        None => format!("?{}", hex(s.as_bytes())),
    }
}

fn show_ann(e: &Expr) -> String {
    match e {
        Expr::Name(n) => id_of(n.id.as_str(), 't'),
        _ => "?".into(),
    }
}

fn show_default(e: &Expr) -> String {
    match e {
        Expr::Constant(ast::ExprConstant {
            value: ast::Constant::Int(i),
            ..
        }) => i.to_string(),
        _ => "?".into(),
    }
}

thread_local! {
    static EXPECT: std::cell::RefCell<std::collections::HashMap<String, (TextRange, Option<String>)>> =
        std::cell::RefCell::new(std::collections::HashMap::new());
}

fn expect_arg(a: &Arg) {
    EXPECT.with(|e| {
        e.borrow_mut()
            .insert(a.arg.as_str().to_string(), (a.range, a.type_comment.clone()));
    });
}

/// record range and type comment of every parameter of the input (parameter names are distinct in every request)
fn expect_from(a: &Arguments) {
    EXPECT.with(|e| e.borrow_mut().clear());
    for p in a.posonlyargs.iter().chain(&a.args).chain(&a.kwonlyargs) {
        expect_arg(&p.def);
    }
    if let Some(v) = &a.vararg {
        expect_arg(v);
    }
    if let Some(k) = &a.kwarg {
        expect_arg(k);
    }
}

fn show_arg(a: &Arg) -> String {
    let mut s = id_of(a.arg.as_str(), 'p');
    if let Some(ann) = &a.annotation {
        s.push(':');
        s.push_str(&show_ann(ann));
    }
    // the parts the model does not carry (range, type comment) must be those of the parameter of the same name in the
    // INPUT of the conversion (recorded by `expect_from`)
    EXPECT.with(|e| {
        if let Some((r, tc)) = e.borrow().get(a.arg.as_str()) {
            if &a.type_comment != tc {
                s.push_str("!type_comment");
            }
            if &a.range != r {
                s.push_str("!range");
            }
        }
    });
    s
}

fn show_awd(a: &ast::ArgWithDefault<TextRange>) -> String {
    let mut s = show_arg(&a.def);
    if let Some(d) = &a.default {
        s.push('=');
        s.push_str(&show_default(d));
    }
    s
}

fn list(v: Vec<String>) -> String {
    if v.is_empty() {
        "-".into()
    } else {
        v.join(",")
    }
}

fn show_arguments(a: &Arguments) -> String {
    [
        list(a.posonlyargs.iter().map(show_awd).collect()),
        list(a.args.iter().map(show_awd).collect()),
        a.vararg.as_ref().map_or("-".into(), |v| show_arg(v)),
        list(a.kwonlyargs.iter().map(show_awd).collect()),
        a.kwarg.as_ref().map_or("-".into(), |v| show_arg(v)),
    ]
    .join(";")
}

fn show_py(p: &PyArguments) -> String {
    [
        list(p.posonlyargs.iter().map(show_arg).collect()),
        list(p.args.iter().map(show_arg).collect()),
        list(p.defaults.iter().map(show_default).collect()),
        p.vararg.as_ref().map_or("-".into(), |v| show_arg(v)),
        list(p.kwonlyargs.iter().map(show_arg).collect()),
        list(p.kw_defaults.iter().map(show_default).collect()),
        p.kwarg.as_ref().map_or("-".into(), |v| show_arg(v)),
    ]
    .join(";")
}

// ------------------------------------------------------------------ operations

fn routes(a: &Arguments) -> [Option<PyArguments>; 3] {
    [
        guard(|| a.to_python_arguments()),
        guard(|| a.clone().into_python_arguments()),
        guard(|| PyArguments::from(a.clone())),
    ]
}

fn rt(a: &Arguments) -> String {
    let back = |p: Option<PyArguments>| -> String {
        opt(p.and_then(|p| guard(|| p.into_arguments())), |b| {
            show_arguments(&b)
        })
    };
    let [t, i, f] = routes(a);
    format!(
        "in={} to={} into={} from={}",
        show_arguments(a),
        back(t),
        back(i),
        back(f)
    )
}

fn topy(a: &Arguments) -> String {
    let sh = |p: Option<PyArguments>| opt(p, |p| show_py(&p));
    let [t, i, f] = routes(a);
    // split_kwonlyargs: parameters without defaults, then (parameter, default) pairs
    let split = guard(|| {
        let (nd, wd) = a.split_kwonlyargs();
        format!(
            "{}/{}",
            list(nd.iter().map(|x| show_arg(x)).collect()),
            list(
                wd.iter()
                    .map(|(x, d)| format!("{}={}", show_arg(x), show_default(d)))
                    .collect()
            )
        )
    });
    // Arguments::defaults(): the iterator over the positional(-only) defaults
    let defs = guard(|| list(a.defaults().map(show_default).collect()));
    format!(
        "in={} to={} into={} from={} split={} defs={}",
        show_arguments(a),
        sh(t),
        sh(i),
        sh(f),
        opt(split, |s| s),
        opt(defs, |s| s)
    )
}

fn parse_pysig(s: &str) -> Option<PyArguments> {
    let f: Vec<&str> = s.split(';').collect();
    if f.len() != 7 {
        return None;
    }
    let plain = |s: &str| -> Option<Arg> {
        let p = parse_param(s)?;
        if p.default.is_some() {
            return None;
        }
        Some(mk_arg(&p))
    };
    let num = |s: &str| -> Option<Expr> { Some(mk_default(s.parse().ok()?)) };
    let o = |s: &str| -> Option<Option<Box<Arg>>> {
        Some(parse_opt(s)?.map(|p| Box::new(mk_arg(&p))))
    };
    Some(ast::PythonArguments {
        range: Default::default(),
        posonlyargs: parse_list(f[0], plain)?,
        args: parse_list(f[1], plain)?,
        defaults: parse_list(f[2], num)?,
        vararg: o(f[3])?,
        kwonlyargs: parse_list(f[4], plain)?,
        kw_defaults: parse_list(f[5], num)?,
        kwarg: o(f[6])?,
    })
}

fn intoargs(p: PyArguments) -> String {
    let shown = show_py(&p);
    let back = guard(|| p.into_arguments());
    format!("in={} back={}", shown, opt(back, |b| show_arguments(&b)))
}

fn handle(ws: &[&str]) -> String {
    let bad = || "bad-request".to_string();
    match ws {
        [op @ ("rt" | "topy"), mode, sig] => {
            let sig = match parse_sig(sig) {
                Some(s) => s,
                None => return bad(),
            };
            match obtain(mode, &sig) {
                Some(a) if *op == "rt" => {
                    expect_from(&a);
                    rt(&a)
                }
                Some(a) => {
                    expect_from(&a);
                    topy(&a)
                }
                None if *mode == "p" => "parse-error".into(),
                None => bad(),
            }
        }
        ["intoargs", pysig] => match parse_pysig(pysig) {
            Some(p) => {
                EXPECT.with(|e| e.borrow_mut().clear());
                for a in p.posonlyargs.iter().chain(&p.args).chain(&p.kwonlyargs) {
                    expect_arg(a);
                }
                if let Some(v) = &p.vararg {
                    expect_arg(v);
                }
                if let Some(k) = &p.kwarg {
                    expect_arg(k);
                }
                intoargs(p)
            }
            None => bad(),
        },
        _ => bad(),
    }
}

fn main() {
    proto_loop(handle);
}
