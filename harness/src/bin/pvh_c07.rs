//! C07 harness: f-string decomposition through the real parser.
//!
//!   fs <src> [c=<claims>]    parse a one-expression source made of adjacent string literals
//!                            (at least one f-string) and print the JoinedStr canonically
//!   table conv               behavioural table: `f'{x!<c>}'` for every ASCII c
//!
//! Canonical form:  `joined <piece>|<piece>|…`   (`joined -` for no pieces)
//!   literal piece  `L:<u|->:<code points>`
//!   field          `F:<start>:<hex text>:<tie>:<conv>:<spec>@<a>..<b>~<hex of src[a..b]>`
//!                  spec = `-` or `[<piece>|…]`;  conv = `-`, `s`, `r`, `a`
//! `<start>:<hex text>` is the (expression text, absolute offset) pair of the model's abstraction.
//! The harness cannot see the parser's internal `expression` string, so the generator CLAIMS the
//! pair for every field (`c=<start>:<hextext>;…`, fields in document order, a field before the
//! fields of its spec) and the harness VALIDATES the claim: it parses `(` text `)` standalone with
//! `Expr::parse_starts_at` at offset `s - 1` for `s` = the claimed start (and, failing that, up to
//! 8 bytes around it) and requires the resulting tree to EQUAL the field's expression tree, ranges
//! included.  The `s` that validates is printed (`tie` = `ok`), otherwise `tie` = `FAIL`.
//! `@a..b~…` is the expression's own range and the source slice at it (not computed by the model:
//! stripped by `canon` before diffing, used by the oracle).
use pvh::*;
use rustpython_parser::ast::{self, Constant, ConversionFlag, Expr, Ranged};
use rustpython_parser::lexer::LexicalErrorType;
use rustpython_parser::text_size::TextSize;
use rustpython_parser::{FStringErrorType, Parse, ParseErrorType};

fn cps(s: &str) -> String {
    if s.is_empty() {
        return "-".into();
    }
    s.chars()
        .map(|c| (c as u32).to_string())
        .collect::<Vec<_>>()
        .join(",")
}

fn ferr_name(e: &FStringErrorType) -> String {
    use FStringErrorType::*;
    match e {
        UnclosedLbrace => "UnclosedLbrace".into(),
        UnopenedRbrace => "UnopenedRbrace".into(),
        ExpectedRbrace => "ExpectedRbrace".into(),
        InvalidExpression(_) => "InvalidExpression".into(),
        InvalidConversionFlag => "InvalidConversionFlag".into(),
        EmptyExpression => "EmptyExpression".into(),
        MismatchedDelimiter(a, b) => format!("MismatchedDelimiter{}_{}", *a as u32, *b as u32),
        ExpressionNestedTooDeeply => "ExpressionNestedTooDeeply".into(),
        ExpressionCannotInclude(_) => "ExpressionCannotInclude".into(),
        SingleRbrace => "SingleRbrace".into(),
        Unmatched(c) => format!("Unmatched{}", *c as u32),
        UnterminatedString => "UnterminatedString".into(),
    }
}

fn lex_err_kind(e: &LexicalErrorType) -> String {
    match e {
        LexicalErrorType::StringError => "StringError".into(),
        LexicalErrorType::UnicodeError => "UnicodeError".into(),
        LexicalErrorType::Eof => "Eof".into(),
        LexicalErrorType::OtherError(_) => "OtherError".into(),
        LexicalErrorType::FStringError(f) => format!("F:{}", ferr_name(f)),
        _ => "OtherLexical".into(),
    }
}

fn conv_char(c: ConversionFlag) -> char {
    match c {
        ConversionFlag::None => '-',
        ConversionFlag::Str => 's',
        ConversionFlag::Ascii => 'a',
        ConversionFlag::Repr => 'r',
    }
}

struct Claims {
    items: Vec<(u32, String)>,
    next: usize,
}

fn parse_claims(arg: Option<&&str>) -> Claims {
    let mut items = Vec::new();
    if let Some(a) = arg {
        if let Some(body) = a.strip_prefix("c=") {
            if body != "-" {
                for it in body.split(';') {
                    if let Some((s, t)) = it.split_once(':') {
                        if let (Ok(s), Some(t)) = (s.parse::<u32>(), unhex_str(t)) {
                            items.push((s, t));
                        }
                    }
                }
            }
        }
    }
    Claims { items, next: 0 }
}

fn validate(text: &str, start: u32, value: &Expr) -> bool {
    if start == 0 {
        return false;
    }
    let body = format!("({text})");
    match guard(|| Expr::parse_starts_at(&body, "<fstring>", TextSize::from(start - 1))) {
        Some(Ok(e)) => &e == value,
        _ => false,
    }
}

fn show_piece(e: &Expr, src: &str, claims: &mut Claims) -> String {
    match e {
        Expr::Constant(c) => match &c.value {
            Constant::Str(s) => format!(
                "L:{}:{}",
                match c.kind.as_deref() {
                    Some(k) => k.to_string(),
                    None => "-".to_string(),
                },
                cps(s)
            ),
            _ => "L?".into(),
        },
        Expr::FormattedValue(f) => {
            let r = f.value.range();
            let (a, b) = (u32::from(r.start()) as usize, u32::from(r.end()) as usize);
            let slice = src.get(a..b).map(|s| hex(s.as_bytes())).unwrap_or("!".into());
            let claim = claims.items.get(claims.next).cloned();
            claims.next += 1;
            let head = match claim {
                None => "?:?:noclaim".to_string(),
                Some((s, t)) => {
                    let mut found = None;
                    let mut cands = vec![s];
                    for d in 1..=8u32 {
                        if s >= d {
                            cands.push(s - d);
                        }
                        cands.push(s + d);
                    }
                    for c in cands {
                        if validate(&t, c, &f.value) {
                            found = Some(c);
                            break;
                        }
                    }
                    match found {
                        Some(c) => format!("{}:{}:ok", c, hex(t.as_bytes())),
                        None => format!("{}:{}:FAIL", s, hex(t.as_bytes())),
                    }
                }
            };
            let conv = conv_char(f.conversion).to_string();
            let spec = match &f.format_spec {
                None => "-".to_string(),
                Some(sp) => match sp.as_ref() {
                    Expr::JoinedStr(j) => format!("[{}]", show_pieces(&j.values, src, claims)),
                    _ => "?".into(),
                },
            };
            format!("F:{}:{}:{}@{}..{}~{}", head, conv, spec, a, b, slice)
        }
        _ => "?".into(),
    }
}

fn show_pieces(v: &[Expr], src: &str, claims: &mut Claims) -> String {
    v.iter()
        .map(|e| show_piece(e, src, claims))
        .collect::<Vec<_>>()
        .join("|")
}

fn fs(src: &str, claims_arg: Option<&&str>) -> String {
    let mut claims = parse_claims(claims_arg);
    match ast::Expr::parse(src, "<c07>") {
        Ok(Expr::JoinedStr(j)) => {
            if j.values.is_empty() {
                "joined -".into()
            } else {
                format!("joined {}", show_pieces(&j.values, src, &mut claims))
            }
        }
        Ok(Expr::Constant(c)) => match &c.value {
            Constant::Str(s) => format!(
                "const {} {}",
                match c.kind.as_deref() {
                    Some(k) => k.to_string(),
                    None => "-".to_string(),
                },
                cps(s)
            ),
            Constant::Bytes(b) => format!("bytes {}", hex(b)),
            _ => "other-constant".into(),
        },
        Ok(_) => "other-expr".into(),
        Err(e) => match &e.error {
            ParseErrorType::Lexical(l) => format!("err {} {}", lex_err_kind(l), u32::from(e.offset)),
            _ => format!("err Parse {}", u32::from(e.offset)),
        },
    }
}

fn table_conv() -> String {
    let mut rows = Vec::new();
    for c in 0u32..128 {
        if c == 13 || c == 10 || c == 39 || c == 92 || c == 0 {
            continue; // cannot stand there in a single-quoted one-line f-string
        }
        let ch = char::from_u32(c).unwrap();
        let src = format!("f'{{x!{ch}}}'");
        let v = guard(|| match ast::Expr::parse(&src, "<c07>") {
            Ok(Expr::JoinedStr(j)) if j.values.len() == 1 => match &j.values[0] {
                Expr::FormattedValue(f) => match conv_char(f.conversion) {
                    '-' => "0".to_string(),
                    k => (k as u32).to_string(),
                },
                _ => "?".into(),
            },
            Ok(_) => "?".into(),
            Err(_) => "E".into(),
        })
        .unwrap_or_else(|| "P".into());
        rows.push(format!("{c}={v}"));
    }
    rows.join(";")
}

fn handle(ws: &[&str]) -> String {
    let bad = || "bad-request".to_string();
    match ws {
        ["fs", s, rest @ ..] => match unhex_str(s) {
            Some(s) => fs(&s, rest.iter().find(|a| a.starts_with("c="))),
            None => bad(),
        },
        ["table", "conv"] => table_conv(),
        _ => bad(),
    }
}

fn main() {
    proto_loop(handle);
}
