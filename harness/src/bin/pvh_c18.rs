//! C18 harness: `FormatSpec::parse` + `format_int/float/string/bool` of the real `rustpython-format`.
//!
//! request : `fmt <hex spec> <kind i|f|s|b> <value> [<kind> <value>]...`  (one spec, many values)
//!             i: decimal big integer   f: 16 hex digits (IEEE-754 bit pattern)
//!             s: hex of the UTF-8 text b: 0/1
//! answer  : `<spec> <result>...`  one result per value, or just `perr` / `panic`
//!             spec   = `perr` (parse error; error kinds are never observed), `panic`, or the
//!                      parsed fields `c=.,f=.,a=.,s=.,alt=.,w=.,g=.,p=.,t=.` read off `{:?}`
//!             result = `ok:<hex text>` | `err` | `panic`
use malachite_bigint::BigInt;
use pvh::*;
use rustpython_format::{CharLen, FormatSpec};
use std::ops::Deref;
use std::str::FromStr;

struct Text(String);
impl CharLen for Text {
    fn char_len(&self) -> usize {
        self.0.chars().count()
    }
}
impl Deref for Text {
    type Target = str;
    fn deref(&self) -> &str {
        &self.0
    }
}

/// Parse a Rust `char` Debug literal body starting after the opening quote; returns (char, rest
/// after the closing quote).
fn char_lit(s: &str) -> Option<(char, &str)> {
    let mut it = s.chars();
    let c = it.next()?;
    let (ch, rest) = if c == '\\' {
        let e = it.next()?;
        match e {
            'n' => ('\n', it.as_str()),
            'r' => ('\r', it.as_str()),
            't' => ('\t', it.as_str()),
            '0' => ('\0', it.as_str()),
            '\\' => ('\\', it.as_str()),
            '\'' => ('\'', it.as_str()),
            '"' => ('"', it.as_str()),
            'u' => {
                let r = it.as_str().strip_prefix('{')?;
                let end = r.find('}')?;
                let v = u32::from_str_radix(&r[..end], 16).ok()?;
                (char::from_u32(v)?, &r[end + 1..])
            }
            _ => return None,
        }
    } else {
        (c, it.as_str())
    };
    Some((ch, rest.strip_prefix('\'')?))
}

fn opt_field<'a>(s: &'a str, name: &str) -> Option<(Option<&'a str>, &'a str)> {
    // `<name>: None, ` or `<name>: Some(<body>), `; body has no nested parentheses except
    // `Hex(Lower)`-like one level.
    let s = s.strip_prefix(name)?.strip_prefix(": ")?;
    if let Some(r) = s.strip_prefix("None") {
        return Some((None, r));
    }
    let s = s.strip_prefix("Some(")?;
    let mut depth = 1;
    for (i, c) in s.char_indices() {
        match c {
            '(' => depth += 1,
            ')' => {
                depth -= 1;
                if depth == 0 {
                    return Some((Some(&s[..i]), &s[i + 1..]));
                }
            }
            _ => {}
        }
    }
    None
}

fn canon_spec(dbg: &str) -> Option<String> {
    let s = dbg.strip_prefix("FormatSpec { ")?;
    let (conv, s) = opt_field(s, "conversion")?;
    let s = s.strip_prefix(", ")?;
    // fill needs the char-literal reader (the fill may be `)` or `'`)
    let s = s.strip_prefix("fill: ")?;
    let (fill, s) = if let Some(r) = s.strip_prefix("None") {
        (None, r)
    } else {
        let r = s.strip_prefix("Some('")?;
        let (c, r) = char_lit(r)?;
        (Some(c), r.strip_prefix(')')?)
    };
    let s = s.strip_prefix(", ")?;
    let (align, s) = opt_field(s, "align")?;
    let s = s.strip_prefix(", ")?;
    let (sign, s) = opt_field(s, "sign")?;
    let s = s.strip_prefix(", alternate_form: ")?;
    let (alt, s) = if let Some(r) = s.strip_prefix("true") {
        (1, r)
    } else {
        (0, s.strip_prefix("false")?)
    };
    let s = s.strip_prefix(", ")?;
    let (width, s) = opt_field(s, "width")?;
    let s = s.strip_prefix(", ")?;
    let (group, s) = opt_field(s, "grouping_option")?;
    let s = s.strip_prefix(", ")?;
    let (prec, s) = opt_field(s, "precision")?;
    let s = s.strip_prefix(", ")?;
    let (ty, s) = opt_field(s, "format_type")?;
    if s != " }" {
        return None;
    }
    let conv = match conv {
        None => "-",
        Some("Str") => "s",
        Some("Repr") => "r",
        Some("Ascii") => "a",
        Some("Bytes") => "b",
        _ => return None,
    };
    let align = match align {
        None => "-",
        Some("Left") => "L",
        Some("Right") => "R",
        Some("AfterSign") => "S",
        Some("Center") => "C",
        _ => return None,
    };
    let sign = match sign {
        None => "-",
        Some("Plus") => "P",
        Some("Minus") => "M",
        Some("MinusOrSpace") => "B",
        _ => return None,
    };
    let group = match group {
        None => "-",
        Some("Comma") => "C",
        Some("Underscore") => "U",
        _ => return None,
    };
    let ty = match ty {
        None => "-",
        Some("String") => "s",
        Some("Binary") => "b",
        Some("Character") => "c",
        Some("Decimal") => "d",
        Some("Octal") => "o",
        Some("Number(Lower)") => "n",
        Some("Number(Upper)") => "N",
        Some("Hex(Lower)") => "x",
        Some("Hex(Upper)") => "X",
        Some("Exponent(Lower)") => "e",
        Some("Exponent(Upper)") => "E",
        Some("GeneralFormat(Lower)") => "g",
        Some("GeneralFormat(Upper)") => "G",
        Some("FixedPoint(Lower)") => "f",
        Some("FixedPoint(Upper)") => "F",
        Some("Percentage") => "%",
        _ => return None,
    };
    Some(format!(
        "c={},f={},a={},s={},alt={},w={},g={},p={},t={}",
        conv,
        fill.map_or("-".to_string(), |c| (c as u32).to_string()),
        align,
        sign,
        alt,
        width.unwrap_or("-"),
        group,
        prec.unwrap_or("-"),
        ty
    ))
}

enum Val {
    I(BigInt),
    F(f64),
    S(String),
    B(bool),
}

fn parse_val(kind: &str, v: &str) -> Option<Val> {
    Some(match kind {
        "i" => Val::I(BigInt::from_str(v).ok()?),
        "f" => {
            if v.len() != 16 {
                return None;
            }
            Val::F(f64::from_bits(u64::from_str_radix(v, 16).ok()?))
        }
        "s" => Val::S(unhex_str(v)?),
        "b" => Val::B(match v {
            "0" => false,
            "1" => true,
            _ => return None,
        }),
        _ => return None,
    })
}

fn fmt(spec: &str, vals: &[Val]) -> String {
    let parsed = match guard(|| FormatSpec::parse(spec)) {
        None => return "panic".to_string(),
        Some(Err(_)) => return "perr".to_string(),
        Some(Ok(p)) => p,
    };
    let mut out = canon_spec(&format!("{:?}", parsed)).unwrap_or_else(|| "spec=?".to_string());
    for val in vals {
        let r = guard(|| match val {
            Val::I(n) => parsed.format_int(n),
            Val::F(x) => parsed.format_float(*x),
            Val::S(s) => parsed.format_string(&Text(s.clone())),
            Val::B(b) => parsed.format_bool(*b),
        });
        out.push(' ');
        match r {
            None => out.push_str("panic"),
            Some(Err(_)) => out.push_str("err"),
            Some(Ok(t)) => {
                out.push_str("ok:");
                out.push_str(&hex(t.as_bytes()));
            }
        }
    }
    out
}

fn handle(ws: &[&str]) -> String {
    match ws {
        ["fmt", spec, rest @ ..] if !rest.is_empty() && rest.len() % 2 == 0 => {
            let vals: Option<Vec<Val>> = rest.chunks(2).map(|p| parse_val(p[0], p[1])).collect();
            match (unhex_str(spec), vals) {
                (Some(spec), Some(vals)) => fmt(&spec, &vals),
                _ => "bad-request".to_string(),
            }
        }
        _ => "bad-request".to_string(),
    }
}

fn main() {
    proto_loop(handle);
}
