//! C12 harness: recording Folder / Visitor over the real generated `Fold` / `Visitor` code,
//! independent canonical walk derived from `{:?}`, and `ConstantOptimizer` once / twice.
//!
//! Every op takes `<src-hex>` (a Python module) followed by words the harness ignores (the generic
//! tree the Lean driver works on; `tools/props/c12.py` derives it from the `dbg` answer).
use pvh::*;
use rustpython_ast::fold::Fold;
use rustpython_ast::text_size::TextRange;
use rustpython_ast::*;
use rustpython_parser::{parse, Mode};

thread_local! { static MODE: std::cell::Cell<u8> = std::cell::Cell::new(b'm'); }

fn parse_mod(src: &str) -> Option<Mod> {
    let mode = match MODE.with(|m| m.get()) {
        b'x' => Mode::Expression,
        b'i' => Mode::Interactive,
        _ => Mode::Module,
    };
    guard(|| parse(src, mode, "<c12>").ok()).flatten()
}

fn rng<T: std::fmt::Debug>(r: &T) -> String {
    let s = format!("{:?}", r);
    if s == "()" {
        "-".to_string()
    } else {
        s
    }
}

// ---------------------------------------------------------------- recording folder
struct RecFolder {
    ev: Vec<String>,
}
impl Fold<TextRange> for RecFolder {
    type TargetU = TextRange;
    type Error = std::convert::Infallible;
    type UserContext = ();
    fn will_map_user(&mut self, user: &TextRange) -> Self::UserContext {
        self.ev.push(format!("W:{}", rng(user)));
    }
    fn map_user(&mut self, user: TextRange, _context: ()) -> Result<TextRange, Self::Error> {
        self.ev.push(format!("M:{}", rng(&user)));
        Ok(user)
    }
}

fn op_fold(src: &str) -> String {
    let m = match parse_mod(src) {
        Some(m) => m,
        None => return "noparse".into(),
    };
    let orig = m.clone();
    let mut f = RecFolder { ev: Vec::new() };
    let folded = match f.fold_mod(m) {
        Ok(x) => x,
        Err(e) => match e {},
    };
    format!("eq={} ev={}", folded == orig, f.ev.join(","))
}

// ---------------------------------------------------------------- recording visitor
struct RecVisitor {
    ev: Vec<String>,
}
macro_rules! rec_visit {
    (@body $self:ident $node:ident -) => {};
    (@body $self:ident $node:ident $g:ident) => { $self.$g($node) };
    (@names $( $m:ident $g:tt $t:ident ; )*) => { &[ $( stringify!($t) ),* ] };
    ($( $m:ident $g:tt $t:ident ; )*) => {
        $( fn $m(&mut self, node: $t<TextRange>) {
            self.ev.push(format!("{}@{}", stringify!($t), rng(&node.range)));
            rec_visit!(@body self node $g);
        } )*
    };
}
/// the visit methods this harness overrides (method, generic method or `-`, node type)
macro_rules! visit_methods {
    ($mac:ident $($pre:tt)*) => {
        $mac! { $($pre)*
        visit_stmt_function_def generic_visit_stmt_function_def StmtFunctionDef;
        visit_stmt_async_function_def generic_visit_stmt_async_function_def StmtAsyncFunctionDef;
        visit_stmt_class_def generic_visit_stmt_class_def StmtClassDef;
        visit_stmt_return generic_visit_stmt_return StmtReturn;
        visit_stmt_delete generic_visit_stmt_delete StmtDelete;
        visit_stmt_assign generic_visit_stmt_assign StmtAssign;
        visit_stmt_type_alias generic_visit_stmt_type_alias StmtTypeAlias;
        visit_stmt_aug_assign generic_visit_stmt_aug_assign StmtAugAssign;
        visit_stmt_ann_assign generic_visit_stmt_ann_assign StmtAnnAssign;
        visit_stmt_for generic_visit_stmt_for StmtFor;
        visit_stmt_async_for generic_visit_stmt_async_for StmtAsyncFor;
        visit_stmt_while generic_visit_stmt_while StmtWhile;
        visit_stmt_if generic_visit_stmt_if StmtIf;
        visit_stmt_with generic_visit_stmt_with StmtWith;
        visit_stmt_async_with generic_visit_stmt_async_with StmtAsyncWith;
        visit_stmt_match generic_visit_stmt_match StmtMatch;
        visit_stmt_raise generic_visit_stmt_raise StmtRaise;
        visit_stmt_try generic_visit_stmt_try StmtTry;
        visit_stmt_try_star generic_visit_stmt_try_star StmtTryStar;
        visit_stmt_assert generic_visit_stmt_assert StmtAssert;
        visit_stmt_import generic_visit_stmt_import StmtImport;
        visit_stmt_import_from generic_visit_stmt_import_from StmtImportFrom;
        visit_stmt_global generic_visit_stmt_global StmtGlobal;
        visit_stmt_nonlocal generic_visit_stmt_nonlocal StmtNonlocal;
        visit_stmt_expr generic_visit_stmt_expr StmtExpr;
        visit_stmt_pass - StmtPass;
        visit_stmt_break - StmtBreak;
        visit_stmt_continue - StmtContinue;
        visit_expr_bool_op generic_visit_expr_bool_op ExprBoolOp;
        visit_expr_named_expr generic_visit_expr_named_expr ExprNamedExpr;
        visit_expr_bin_op generic_visit_expr_bin_op ExprBinOp;
        visit_expr_unary_op generic_visit_expr_unary_op ExprUnaryOp;
        visit_expr_lambda generic_visit_expr_lambda ExprLambda;
        visit_expr_if_exp generic_visit_expr_if_exp ExprIfExp;
        visit_expr_dict generic_visit_expr_dict ExprDict;
        visit_expr_set generic_visit_expr_set ExprSet;
        visit_expr_list_comp generic_visit_expr_list_comp ExprListComp;
        visit_expr_set_comp generic_visit_expr_set_comp ExprSetComp;
        visit_expr_dict_comp generic_visit_expr_dict_comp ExprDictComp;
        visit_expr_generator_exp generic_visit_expr_generator_exp ExprGeneratorExp;
        visit_expr_await generic_visit_expr_await ExprAwait;
        visit_expr_yield generic_visit_expr_yield ExprYield;
        visit_expr_yield_from generic_visit_expr_yield_from ExprYieldFrom;
        visit_expr_compare generic_visit_expr_compare ExprCompare;
        visit_expr_call generic_visit_expr_call ExprCall;
        visit_expr_formatted_value generic_visit_expr_formatted_value ExprFormattedValue;
        visit_expr_joined_str generic_visit_expr_joined_str ExprJoinedStr;
        visit_expr_constant generic_visit_expr_constant ExprConstant;
        visit_expr_attribute generic_visit_expr_attribute ExprAttribute;
        visit_expr_subscript generic_visit_expr_subscript ExprSubscript;
        visit_expr_starred generic_visit_expr_starred ExprStarred;
        visit_expr_name generic_visit_expr_name ExprName;
        visit_expr_list generic_visit_expr_list ExprList;
        visit_expr_tuple generic_visit_expr_tuple ExprTuple;
        visit_expr_slice generic_visit_expr_slice ExprSlice;
        visit_comprehension generic_visit_comprehension Comprehension;
        visit_excepthandler_except_handler generic_visit_excepthandler_except_handler ExceptHandlerExceptHandler;
        visit_arguments generic_visit_arguments Arguments;
        visit_arg generic_visit_arg Arg;
        visit_keyword generic_visit_keyword Keyword;
        visit_alias generic_visit_alias Alias;
        visit_withitem generic_visit_withitem WithItem;
        visit_match_case generic_visit_match_case MatchCase;
        visit_pattern_match_value generic_visit_pattern_match_value PatternMatchValue;
        visit_pattern_match_singleton generic_visit_pattern_match_singleton PatternMatchSingleton;
        visit_pattern_match_sequence generic_visit_pattern_match_sequence PatternMatchSequence;
        visit_pattern_match_mapping generic_visit_pattern_match_mapping PatternMatchMapping;
        visit_pattern_match_class generic_visit_pattern_match_class PatternMatchClass;
        visit_pattern_match_star generic_visit_pattern_match_star PatternMatchStar;
        visit_pattern_match_as generic_visit_pattern_match_as PatternMatchAs;
        visit_pattern_match_or generic_visit_pattern_match_or PatternMatchOr;
        visit_type_param_type_var generic_visit_type_param_type_var TypeParamTypeVar;
        visit_type_param_param_spec generic_visit_type_param_param_spec TypeParamParamSpec;
        visit_type_param_type_var_tuple generic_visit_type_param_type_var_tuple TypeParamTypeVarTuple;
        visit_arg_with_default generic_visit_arg_with_default ArgWithDefault;
        }
    };
}
impl Visitor<TextRange> for RecVisitor {
    visit_methods!(rec_visit);
}
/// node kinds whose visits are recorded (sent to the model side so that it reports the same kinds)
const VISIT_KINDS: &[&str] = visit_methods!(rec_visit @names);

fn op_visit(src: &str) -> String {
    let m = match parse_mod(src) {
        Some(Mod::Module(m)) => m,
        _ => return "noparse".into(),
    };
    let mut v = RecVisitor { ev: Vec::new() };
    for s in m.body {
        v.visit_stmt(s);
    }
    format!("ev={}", v.ev.join(","))
}

// ---------------------------------------------------------------- dispatcher-level hooks
/// A visitor that overrides only the four dispatcher hooks (`visit_stmt`, `visit_expr`, `visit_pattern`,
/// `visit_excepthandler`) — what a user writes who wants to see "every expression" — and otherwise relies on the
/// default walk: each hook must be called exactly once per node of its category.
struct HookVisitor {
    n: [usize; 4],
}
impl Visitor<TextRange> for HookVisitor {
    fn visit_stmt(&mut self, node: Stmt) {
        self.n[0] += 1;
        self.generic_visit_stmt(node)
    }
    fn visit_expr(&mut self, node: Expr) {
        self.n[1] += 1;
        self.generic_visit_expr(node)
    }
    fn visit_pattern(&mut self, node: Pattern) {
        self.n[2] += 1;
        self.generic_visit_pattern(node)
    }
    fn visit_excepthandler(&mut self, node: ExceptHandler) {
        self.n[3] += 1;
        self.generic_visit_excepthandler(node)
    }
}

fn op_vhook(src: &str) -> String {
    let m = match parse_mod(src) {
        Some(Mod::Module(m)) => m,
        _ => return "noparse".into(),
    };
    let mut v = HookVisitor { n: [0; 4] };
    for s in m.body {
        v.visit_stmt(s);
    }
    format!("hooks=Stmt:{},Expr:{},Pattern:{},ExceptHandler:{}", v.n[0], v.n[1], v.n[2], v.n[3])
}

// ---------------------------------------------------------------- independent walk over `{:?}`
fn interesting(name: &str) -> bool {
    for p in ["Stmt", "Expr", "Pattern", "ExceptHandler"] {
        if let Some(rest) = name.strip_prefix(p) {
            if rest.chars().next().map_or(false, |c| c.is_ascii_uppercase()) {
                return true;
            }
        }
    }
    false
}

/// every `Name { range: R` occurrence outside string literals, in textual (= pre-) order
fn walk_debug(d: &str) -> Vec<(String, String)> {
    let b: Vec<char> = d.chars().collect();
    let mut out = Vec::new();
    let mut i = 0;
    while i < b.len() {
        let c = b[i];
        if c == '"' {
            i += 1;
            while i < b.len() && b[i] != '"' {
                if b[i] == '\\' {
                    i += 1;
                }
                i += 1;
            }
            i += 1;
        } else if c == '\'' {
            // char literal (not produced by the AST's Debug, handled for safety)
            i += 1;
            if i < b.len() && b[i] == '\\' {
                i += 1;
            }
            i += 2;
        } else if c.is_ascii_alphabetic() || c == '_' {
            let st = i;
            while i < b.len() && (b[i].is_ascii_alphanumeric() || b[i] == '_') {
                i += 1;
            }
            let name: String = b[st..i].iter().collect();
            let pat: Vec<char> = " { range: ".chars().collect();
            if i + pat.len() <= b.len() && b[i..i + pat.len()] == pat[..] {
                let mut j = i + pat.len();
                let rs = j;
                while j < b.len() && b[j] != ',' && b[j] != ' ' {
                    j += 1;
                }
                let r: String = b[rs..j].iter().collect();
                out.push((name, if r == "()" { "-".to_string() } else { r }));
                i = j;
            }
        } else {
            i += 1;
        }
    }
    out
}

fn op_walk(src: &str) -> String {
    let m = match parse_mod(src) {
        Some(Mod::Module(m)) => m,
        _ => return "noparse".into(),
    };
    let mut ev = Vec::new();
    for s in &m.body {
        for (k, r) in walk_debug(&format!("{:?}", s)) {
            if interesting(&k) {
                ev.push(format!("{}@{}", k, r));
            }
        }
    }
    format!("ev={}", ev.join(","))
}

fn op_ranges(src: &str) -> String {
    let m = match parse_mod(src) {
        Some(m) => m,
        None => return "noparse".into(),
    };
    let rs: Vec<String> = walk_debug(&format!("{:?}", m))
        .into_iter()
        .filter(|(_, r)| r != "-")
        .map(|(_, r)| r)
        .collect();
    format!("ranges={}", rs.join(","))
}

// ---------------------------------------------------------------- optimiser
fn op_opt(src: &str) -> String {
    let m = match parse_mod(src) {
        Some(m) => m,
        None => return "noparse".into(),
    };
    let once = match ConstantOptimizer::new().fold_mod(m) {
        Ok(x) => x,
        Err(e) => match e {},
    };
    let twice = match ConstantOptimizer::new().fold_mod(once.clone()) {
        Ok(x) => x,
        Err(e) => match e {},
    };
    format!("idem={} once={:?}", once == twice, once)
}

fn handle(ws: &[&str]) -> String {
    if ws.len() < 2 {
        return "bad-request".into();
    }
    let src = match unhex_str(ws[1]) {
        Some(s) => s,
        None => return "bad-request".into(),
    };
    // `op` or `op:x` (Mode::Expression) / `op:i` (Mode::Interactive)
    let (op, mode) = match ws[0].split_once(':') {
        Some((o, m)) => (o, m.bytes().next().unwrap_or(b'm')),
        None => (ws[0], b'm'),
    };
    MODE.with(|m| m.set(mode));
    match op {
        "dbg" => match parse_mod(&src) {
            Some(m) => format!("{:?}", m),
            None => "noparse".into(),
        },
        "vkinds" => VISIT_KINDS.join(","),
        "fold" => op_fold(&src),
        "visit" => op_visit(&src),
        "vhook" => op_vhook(&src),
        "walk" => op_walk(&src),
        "ranges" => op_ranges(&src),
        "opt" => op_opt(&src),
        _ => "bad-request".into(),
    }
}

fn main() {
    proto_loop(handle);
}
