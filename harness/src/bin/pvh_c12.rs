use pvh::*;
use rustpython_parser::{parse, Mode};
fn handle(ws: &[&str]) -> String {
    match ws {
        ["dbg", t] => {
            let s = unhex_str(t).unwrap();
            match parse(&s, Mode::Module, "<x>") {
                Ok(m) => format!("{:?}", m),
                Err(e) => format!("err {:?}", e),
            }
        }
        _ => "bad-request".into(),
    }
}
fn main() { proto_loop(handle); }
