//! C15 harness: LineIndex / SourceCode / SourceFile queries, UniversalNewlineIterator and Line,
//! LineEnding, OneIndexed, TextSize and TextRange algebra, slicing by TextRange.
use pvh::*;
use rustpython_parser_vendored::source_location::newlines::{
    find_newline, Line, LineEnding, NewlineWithTrailingNewline, StrExt, UniversalNewlineIterator,
};
use rustpython_parser_vendored::source_location::{
    LineIndex, OneIndexed, SourceCode, SourceFileBuilder, SourceLocation,
};
use rustpython_parser_vendored::text_size::{TextLen, TextRange, TextSize};
use std::ops::{Bound, RangeBounds};

fn ts(x: u32) -> TextSize {
    TextSize::from(x)
}

fn show_size(s: Option<TextSize>) -> String {
    opt(s, |s| u32::from(s).to_string())
}

fn show_range(r: Option<TextRange>) -> String {
    opt(r, |r| format!("{}..{}", u32::from(r.start()), u32::from(r.end())))
}

fn show_str(s: Option<String>) -> String {
    opt(s, |s| hex(s.as_bytes()))
}

/// offset:full text:text without terminator:end:full_end:range:full_range:full_text_len
fn show_line(l: &Line) -> String {
    format!(
        "{}:{}:{}:{}:{}:{}:{}:{}",
        u32::from(l.start()),
        hex(l.as_full_str().as_bytes()),
        hex(l.as_str().as_bytes()),
        show_size(guard(|| l.end())),
        show_size(guard(|| l.full_end())),
        show_range(guard(|| l.range())),
        show_range(guard(|| l.full_range())),
        u32::from(l.full_text_len()),
    )
}

fn lineidx(text: &str) -> String {
    let index = LineIndex::from_source_text(text);
    let code = SourceCode::new(text, &index);
    let starts: Vec<u32> = index.line_starts().iter().map(|s| u32::from(*s)).collect();
    let n = code.line_count();
    let mut locs = Vec::new();
    for o in 0..=text.len() {
        if !text.is_char_boundary(o) {
            continue;
        }
        let off = TextSize::from(o as u32);
        let loc = guard(|| code.source_location(off));
        let li = guard(|| code.line_index(off));
        locs.push(format!(
            "{}={}/{}",
            o,
            opt(loc, |l| format!(
                "{},{}",
                l.row.to_zero_indexed(),
                l.column.to_zero_indexed()
            )),
            opt(li, |l| l.to_zero_indexed().to_string())
        ));
    }
    let mut lines = Vec::new();
    for r in 0..=n {
        let line = OneIndexed::from_zero_indexed(r as u32);
        let s = guard(|| code.line_start(line));
        let e = guard(|| code.line_end(line));
        let rg = guard(|| code.line_range(line));
        let tx = guard(|| code.line_text(line).to_string());
        lines.push(format!(
            "{},{},{},{}",
            opt(s, |s| u32::from(s).to_string()),
            opt(e, |s| u32::from(s).to_string()),
            opt(rg, |r| format!("{},{}", u32::from(r.start()), u32::from(r.end()))),
            opt(tx, |t| hex(t.as_bytes()))
        ));
    }
    // SourceCode::up_to / after at EVERY offset 0..=len+1 (inside characters and past the end too)
    let mut cuts = Vec::new();
    for o in 0..=text.len() + 1 {
        let off = TextSize::from(o as u32);
        cuts.push(format!(
            "{}/{}",
            show_str(guard(|| code.up_to(off).to_string())),
            show_str(guard(|| code.after(off).to_string()))
        ));
    }
    // SourceFile: lazily built index, index handed to the builder, index set afterwards
    let describe = |sf: &rustpython_parser_vendored::source_location::SourceFile| -> String {
        let sc = sf.to_source_code();
        let cnt = sc.line_count();
        let st: Vec<String> = (0..cnt)
            .map(|r| show_size(guard(|| sc.line_start(OneIndexed::from_zero_indexed(r as u32)))))
            .collect();
        let first = guard(|| sf.slice(sc.line_range(OneIndexed::MIN)).to_string());
        format!(
            "{}:{}:{}:{}:{}",
            cnt,
            st.join(","),
            show_str(first),
            hex(sf.source_text().as_bytes()),
            hex(sf.name().as_bytes())
        )
    };
    let sf1 = SourceFileBuilder::new("f.py", text).finish();
    let sf2 = SourceFileBuilder::new("f.py", text)
        .line_index(index.clone())
        .finish();
    let mut b3 = SourceFileBuilder::new("f.py", text);
    b3.set_line_index(index.clone());
    let sf3 = b3.finish();
    let same = sf1 == sf2 && sf2 == sf3 && code == sf1.to_source_code();
    format!(
        "starts={:?} count={} locs={} lines={} cuts={} text={} dlen={} file={}|{}|{}|{}",
        starts,
        n,
        locs.join(";"),
        lines.join(";"),
        cuts.join(";"),
        hex(code.text().as_bytes()),
        index.len(), // Deref<Target = [TextSize]>
        describe(&sf1),
        describe(&sf2),
        describe(&sf3),
        same
    )
}

fn show_ending(e: LineEnding) -> String {
    let name = match e {
        LineEnding::Lf => "Lf",
        LineEnding::Cr => "Cr",
        LineEnding::CrLf => "CrLf",
    };
    let d: &str = &e; // Deref
    format!(
        "{},{},{},{},{}",
        name,
        hex(e.as_str().as_bytes()),
        e.len(),
        u32::from(e.text_len()),
        hex(d.as_bytes())
    )
}

fn nliter(text: &str, off: u32, ops: &str) -> String {
    let mut it = match guard(|| UniversalNewlineIterator::with_offset(text, TextSize::from(off))) {
        Some(it) => it,
        None => return "overflow".into(),
    };
    let mut items = Vec::new();
    for op in ops.chars() {
        let r = if op == 'f' { it.next() } else { it.next_back() };
        items.push(opt(r, |l| show_line(&l)));
    }
    let last = opt(it.last(), |l| show_line(&l));
    let tl: Vec<String> = NewlineWithTrailingNewline::with_offset(text, TextSize::from(off))
        .map(|l| show_line(&l))
        .collect();
    let ext: Vec<String> = text.universal_newlines().map(|l| show_line(&l)).collect();
    let from: Vec<String> = NewlineWithTrailingNewline::from(text)
        .map(|l| show_line(&l))
        .collect();
    let find = opt(find_newline(text), |(p, e)| format!("{},{}", p, show_ending(e)));
    format!(
        "{} last={} trailing={} ext={} from={} find={}",
        items.join(";"),
        last,
        tl.join(";"),
        ext.join(";"),
        from.join(";"),
        find
    )
}

/// `Line::new` with an arbitrary text and offset (also offsets where the queries overflow u32)
fn line_ops(text: &str, off: u32, cmp: &str) -> String {
    let l = Line::new(text, ts(off));
    let d: &str = &l; // Deref
    format!(
        "{} deref={} eq={},{},{},{} same={}",
        show_line(&l),
        hex(d.as_bytes()),
        l == cmp,
        cmp == l,
        l == text,
        l == l.as_str(),
        l == Line::new(text, ts(off))
    )
}

fn show_bound(b: Bound<&TextSize>) -> String {
    match b {
        Bound::Included(x) => format!("I{}", u32::from(*x)),
        Bound::Excluded(x) => format!("E{}", u32::from(*x)),
        Bound::Unbounded => "U".into(),
    }
}

fn range_ops(a: u32, b: u32, c: u32, d: u32, text: &str) -> String {
    let r = match guard(|| TextRange::new(ts(a), ts(b))) {
        Some(r) => r,
        None => return "new=none".into(),
    };
    let o = match guard(|| TextRange::new(ts(c), ts(d))) {
        Some(r) => r,
        None => return "other=none".into(),
    };
    let ord = match r.ordering(o) {
        std::cmp::Ordering::Less => -1,
        std::cmp::Ordering::Equal => 0,
        std::cmp::Ordering::Greater => 1,
    };
    let k = ts(c);
    let addops = [
        guard(|| r + k),
        guard(|| r + &k),
        guard(|| &r + k),
        guard(|| {
            let mut x = r;
            x += k;
            x
        }),
    ];
    let subops = [
        guard(|| r - k),
        guard(|| r - &k),
        guard(|| &r - k),
        guard(|| {
            let mut x = r;
            x -= k;
            x
        }),
    ];
    let owned = text.to_string();
    let imut = guard(|| {
        let mut s = text.to_string();
        {
            let m: &mut str = &mut s.as_mut_str()[r];
            m.make_ascii_uppercase();
        }
        s
    });
    let simut = guard(|| {
        let mut s = text.to_string();
        {
            let m: &mut str = &mut s[r];
            m.make_ascii_uppercase();
        }
        s
    });
    let fields = vec![
        format!("len={}", u32::from(r.len())),
        format!("empty={}", r.is_empty()),
        format!("contains={}", r.contains(ts(c))),
        format!("containsI={}", r.contains_inclusive(ts(c))),
        format!("containsR={}", r.contains_range(o)),
        format!("intersect={}", show_range(r.intersect(o))),
        format!("cover={}", show_range(Some(r.cover(o)))),
        format!("coverOff={}", show_range(Some(r.cover_offset(ts(c))))),
        format!("add={}", show_range(r.checked_add(ts(c)))),
        format!("sub={}", show_range(r.checked_sub(ts(c)))),
        format!("ord={}", ord),
        format!("at={}", show_range(guard(|| TextRange::at(ts(a), ts(c))))),
        format!("upto={}", show_range(Some(TextRange::up_to(ts(b))))),
        format!("substart={}", show_range(guard(|| r.sub_start(k)))),
        format!("addstart={}", show_range(guard(|| r.add_start(k)))),
        format!("subend={}", show_range(guard(|| r.sub_end(k)))),
        format!("addend={}", show_range(guard(|| r.add_end(k)))),
        format!(
            "addop={}",
            addops.iter().map(|x| show_range(*x)).collect::<Vec<_>>().join("|")
        ),
        format!(
            "subop={}",
            subops.iter().map(|x| show_range(*x)).collect::<Vec<_>>().join("|")
        ),
        format!(
            "bounds={},{}",
            show_bound(r.start_bound()),
            show_bound(r.end_bound())
        ),
        format!("rbcontains={}", RangeBounds::contains(&r, &ts(c))),
        format!("index={}", show_str(guard(|| text[r].to_string()))),
        format!("sindex={}", show_str(guard(|| owned[r].to_string()))),
        format!("imut={}", show_str(imut)),
        format!("simut={}", show_str(simut)),
    ];
    fields.join(" ")
}

fn size_ops(a: u32, b: u32, text: &str) -> String {
    let (x, y) = (ts(a), ts(b));
    let adds = [
        guard(|| x + y),
        guard(|| x + &y),
        guard(|| &x + y),
        guard(|| &x + &y),
        guard(|| {
            let mut z = x;
            z += y;
            z
        }),
        guard(|| {
            let mut z = x;
            z += &y;
            z
        }),
    ];
    let subs = [
        guard(|| x - y),
        guard(|| x - &y),
        guard(|| &x - y),
        guard(|| &x - &y),
        guard(|| {
            let mut z = x;
            z -= y;
            z
        }),
        guard(|| {
            let mut z = x;
            z -= &y;
            z
        }),
    ];
    let join = |v: &[Option<TextSize>]| v.iter().map(|s| show_size(*s)).collect::<Vec<_>>().join("|");
    let owned = text.to_string();
    let chars: Vec<String> = text
        .chars()
        .map(|c| u32::from(TextSize::of(c)).to_string())
        .collect();
    let sums = [
        guard(|| [x, y].iter().sum::<TextSize>()),
        guard(|| [x, y, x].into_iter().sum::<TextSize>()),
        guard(|| text.chars().map(TextSize::of).sum::<TextSize>()),
        guard(|| Vec::<TextSize>::new().into_iter().sum::<TextSize>()),
    ];
    format!(
        "add={} sub={} cadd={} csub={} of={},{},{} ofc={} sum={} u32={},{} try={}",
        join(&adds),
        join(&subs),
        show_size(x.checked_add(y)),
        show_size(x.checked_sub(y)),
        u32::from(TextSize::of(text)),
        u32::from(TextSize::of(&owned)),
        u32::from(text.text_len()),
        if chars.is_empty() { "-".to_string() } else { chars.join(",") },
        join(&sums),
        x.to_u32(),
        x.to_usize(),
        opt(TextSize::try_from(a as usize + b as usize).ok(), |s| u32::from(s).to_string()),
    )
}

fn oneidx(v: u64, rhs: u32) -> String {
    let show = |o: OneIndexed| o.get().to_string();
    let try_ = match OneIndexed::try_from_zero_indexed(v as usize) {
        Ok(o) => show(o),
        Err(e) => format!("err{}", e),
    };
    let dflt = SourceLocation::default();
    let head = format!(
        "try={} min={} max={} dflt={},{}",
        try_,
        show(OneIndexed::MIN),
        show(OneIndexed::MAX),
        show(dflt.row),
        show(dflt.column)
    );
    if v > u32::MAX as u64 {
        return head;
    }
    let v32 = v as u32;
    let new = OneIndexed::new(v32);
    let fzi = OneIndexed::from_zero_indexed(v32);
    format!(
        "{} new={} fzi={} back={} one={}",
        head,
        opt(new, show),
        show(fzi),
        fzi.to_zero_indexed(),
        opt(new, |o| format!(
            "{},{},{},{},{},{}",
            o.to_zero_indexed(),
            o.to_zero_indexed_usize(),
            o.to_usize(),
            show(o.saturating_add(rhs)),
            show(o.saturating_sub(rhs)),
            show(OneIndexed::from_zero_indexed(o.to_zero_indexed()))
        ))
    )
}

/// every pair (a, b) with 0 <= a, b <= len + 1 sliced through SourceCode::slice (and
/// SourceFile::slice, shown only if it differs)
fn slices(text: &str) -> String {
    let index = LineIndex::from_source_text(text);
    let code = SourceCode::new(text, &index);
    let sf = SourceFileBuilder::new("f.py", text).finish();
    let n = text.len() as u32 + 1;
    let mut out = Vec::new();
    for a in 0..=n {
        for b in 0..=n {
            let s1 = show_str(guard(|| code.slice(TextRange::new(ts(a), ts(b))).to_string()));
            let s2 = show_str(guard(|| sf.slice(TextRange::new(ts(a), ts(b))).to_string()));
            if s1 == s2 {
                out.push(s1);
            } else {
                out.push(format!("{}~{}", s1, s2));
            }
        }
    }
    out.join(";")
}

fn handle(ws: &[&str]) -> String {
    let bad = || "bad-request".to_string();
    match ws {
        ["lineidx", t] => match unhex_str(t) {
            Some(t) => lineidx(&t),
            None => bad(),
        },
        ["nliter", t, off, ops] => match (unhex_str(t), off.parse::<u32>()) {
            (Some(t), Ok(o)) => nliter(&t, o, if *ops == "-" { "" } else { ops }),
            _ => bad(),
        },
        ["line", t, off, c] => match (unhex_str(t), off.parse::<u32>(), unhex_str(c)) {
            (Some(t), Ok(o), Some(c)) => line_ops(&t, o, &c),
            _ => bad(),
        },
        ["range", a, b, c, d, t] => {
            match (
                a.parse::<u32>(),
                b.parse::<u32>(),
                c.parse::<u32>(),
                d.parse::<u32>(),
                unhex_str(t),
            ) {
                (Ok(a), Ok(b), Ok(c), Ok(d), Some(t)) => range_ops(a, b, c, d, &t),
                _ => bad(),
            }
        }
        ["size", a, b, t] => match (a.parse::<u32>(), b.parse::<u32>(), unhex_str(t)) {
            (Ok(a), Ok(b), Some(t)) => size_ops(a, b, &t),
            _ => bad(),
        },
        ["oneidx", v, rhs] => match (v.parse::<u64>(), rhs.parse::<u32>()) {
            (Ok(v), Ok(r)) => oneidx(v, r),
            _ => bad(),
        },
        ["slices", t] => match unhex_str(t) {
            Some(t) => slices(&t),
            None => bad(),
        },
        _ => bad(),
    }
}

fn main() {
    proto_loop(handle);
}
