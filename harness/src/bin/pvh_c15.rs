//! C15 harness: LineIndex / SourceCode queries, UniversalNewlineIterator, TextRange algebra.
use pvh::*;
use rustpython_parser_vendored::source_location::newlines::{
    Line, NewlineWithTrailingNewline, UniversalNewlineIterator,
};
use rustpython_parser_vendored::source_location::{LineIndex, OneIndexed, SourceCode};
use rustpython_parser_vendored::text_size::{TextRange, TextSize};

fn show_line(l: &Line) -> String {
    format!(
        "{}:{}:{}",
        u32::from(l.start()),
        hex(l.as_full_str().as_bytes()),
        hex(l.as_str().as_bytes())
    )
}

fn show_range(r: Option<TextRange>) -> String {
    opt(r, |r| format!("{}..{}", u32::from(r.start()), u32::from(r.end())))
}

fn lineidx(text: &str) -> String {
    let index = LineIndex::from_source_text(text);
    let code = SourceCode::new(text, &index);
    let starts: Vec<u32> = index.line_starts().iter().map(|s| u32::from(*s)).collect();
    let n = code.line_count();
    let mut locs = Vec::new();
    for o in 0..=text.len() {
        if !text.is_char_boundary(o) {
            continue;
        }
        let off = TextSize::from(o as u32);
        let loc = guard(|| code.source_location(off));
        let li = guard(|| code.line_index(off));
        locs.push(format!(
            "{}={}/{}",
            o,
            opt(loc, |l| format!(
                "{},{}",
                l.row.to_zero_indexed(),
                l.column.to_zero_indexed()
            )),
            opt(li, |l| l.to_zero_indexed().to_string())
        ));
    }
    let mut lines = Vec::new();
    for r in 0..=n {
        let line = OneIndexed::from_zero_indexed(r as u32);
        let s = guard(|| code.line_start(line));
        let e = guard(|| code.line_end(line));
        let rg = guard(|| code.line_range(line));
        let tx = guard(|| code.line_text(line).to_string());
        lines.push(format!(
            "{},{},{},{}",
            opt(s, |s| u32::from(s).to_string()),
            opt(e, |s| u32::from(s).to_string()),
            opt(rg, |r| format!("{},{}", u32::from(r.start()), u32::from(r.end()))),
            opt(tx, |t| hex(t.as_bytes()))
        ));
    }
    format!(
        "starts={:?} count={} locs={} lines={}",
        starts,
        n,
        locs.join(";"),
        lines.join(";")
    )
}

fn nliter(text: &str, off: u32, ops: &str) -> String {
    let mut it = UniversalNewlineIterator::with_offset(text, TextSize::from(off));
    let mut items = Vec::new();
    for op in ops.chars() {
        let r = if op == 'f' { it.next() } else { it.next_back() };
        items.push(opt(r, |l| show_line(&l)));
    }
    let tl: Vec<String> = NewlineWithTrailingNewline::with_offset(text, TextSize::from(off))
        .map(|l| show_line(&l))
        .collect();
    format!("{} trailing={}", items.join(";"), tl.join(";"))
}

fn range_ops(a: u32, b: u32, c: u32, d: u32, text: &str) -> String {
    let ts = TextSize::from;
    let r = match guard(|| TextRange::new(ts(a), ts(b))) {
        Some(r) => r,
        None => return "new=none".into(),
    };
    let o = match guard(|| TextRange::new(ts(c), ts(d))) {
        Some(r) => r,
        None => return "other=none".into(),
    };
    let ord = match r.ordering(o) {
        std::cmp::Ordering::Less => -1,
        std::cmp::Ordering::Equal => 0,
        std::cmp::Ordering::Greater => 1,
    };
    let fields = vec![
        format!("len={}", u32::from(r.len())),
        format!("empty={}", r.is_empty()),
        format!("contains={}", r.contains(ts(c))),
        format!("containsI={}", r.contains_inclusive(ts(c))),
        format!("containsR={}", r.contains_range(o)),
        format!("intersect={}", show_range(r.intersect(o))),
        format!("cover={}", show_range(Some(r.cover(o)))),
        format!("coverOff={}", show_range(Some(r.cover_offset(ts(c))))),
        format!("add={}", show_range(r.checked_add(ts(c)))),
        format!("sub={}", show_range(r.checked_sub(ts(c)))),
        format!("ord={}", ord),
        format!("at={}", show_range(guard(|| TextRange::at(ts(a), ts(c))))),
        format!("upto={}", show_range(Some(TextRange::up_to(ts(b))))),
        format!(
            "index={}",
            opt(guard(|| text[r].to_string()), |s| hex(s.as_bytes()))
        ),
    ];
    fields.join(" ")
}

fn handle(ws: &[&str]) -> String {
    let bad = || "bad-request".to_string();
    match ws {
        ["lineidx", t] => match unhex_str(t) {
            Some(t) => lineidx(&t),
            None => bad(),
        },
        ["nliter", t, off, ops] => match (unhex_str(t), off.parse::<u32>()) {
            (Some(t), Ok(o)) => nliter(&t, o, if *ops == "-" { "" } else { ops }),
            _ => bad(),
        },
        ["range", a, b, c, d, t] => {
            match (
                a.parse::<u32>(),
                b.parse::<u32>(),
                c.parse::<u32>(),
                d.parse::<u32>(),
                unhex_str(t),
            ) {
                (Ok(a), Ok(b), Ok(c), Ok(d), Some(t)) => range_ops(a, b, c, d, &t),
                _ => bad(),
            }
        }
        _ => bad(),
    }
}

fn main() {
    proto_loop(handle);
}
