//! C02 harness for the ranged-parser correspondence (feature set `all-ranges`).
//!
//!   lexspans <mode e|m> <hex src>
//!        -> the byte spans `a-b,c-d,…` (`-` when there is none) of the tokens the real lexer hands to the
//!           grammar for `src`, without the mode start marker, the final `Newline`s and `EndOfFile`
//!           (mode `m`: only the trailing run of `Newline` tokens is dropped), or `(err <offset>)`.
//!   rexpr <hex src> <spans>
//!        -> canonical tree WITH ranges (format of design/REFTOOLS.md, `ctx` fields removed) of the body of
//!           `parse(src, Mode::Expression)`; `stale-tokens` when `<spans>` is not what `lexspans e` answers now;
//!           `(err <kind> <offset>)` when the parser rejects.
//!   rstmts <hex src> <spans>
//!        -> the same for `Mode::Module`: the list of statements `[stmt …]`.
//!
//! The words `<spans>` are the attachment for the Lean model (`drv_c02`), which computes the same tree from
//! the source's tokens and these spans with `PV.C02.parseR…`.
use pvh::*;
use rustpython_parser::lexer::lex;
use rustpython_parser::text_size::TextSize;
use rustpython_parser::{ast, parse_starts_at, Mode, ParseError, Tok};

#[path = "../astdump.rs"]
mod astdump;

fn err_line(e: &ParseError) -> String {
    let d = format!("{:?}", e.error);
    let head = |s: &str| -> String {
        s.chars()
            .take_while(|c| c.is_ascii_alphanumeric() || *c == '_')
            .collect()
    };
    let k = head(&d);
    let kind = if k == "Lexical" {
        let inner = &d["Lexical(".len()..];
        format!("Lexical.{}", head(inner))
    } else {
        k
    };
    format!("(err {} {})", kind, u32::from(e.offset))
}

fn spans(src: &str, mode: Mode) -> Result<String, String> {
    let mut v: Vec<(Tok, u32, u32)> = Vec::new();
    for item in lex(src, mode) {
        match item {
            Ok((t, r)) => v.push((t, u32::from(r.start()), u32::from(r.end()))),
            Err(e) => return Err(format!("(err {})", u32::from(e.location))),
        }
    }
    // start marker, end of file
    v.retain(|(t, _, _)| {
        !matches!(
            t,
            Tok::StartModule | Tok::StartInteractive | Tok::StartExpression | Tok::EndOfFile
        )
    });
    while matches!(v.last(), Some((Tok::Newline, _, _))) {
        v.pop();
    }
    if v.is_empty() {
        return Ok("-".into());
    }
    Ok(v.iter()
        .map(|(_, a, b)| format!("{}-{}", a, b))
        .collect::<Vec<_>>()
        .join(","))
}

fn strip_ctx(s: String) -> String {
    s.replace(" (ctx Load)", "")
        .replace(" (ctx Store)", "")
        .replace(" (ctx Del)", "")
}

fn handle(ws: &[&str]) -> String {
    let bad = || "bad-request".to_string();
    match ws {
        ["lexspans", m, src] => {
            let Some(src) = unhex_str(src) else { return bad() };
            let mode = match *m {
                "e" => Mode::Expression,
                "m" => Mode::Module,
                _ => return bad(),
            };
            match spans(&src, mode) {
                Ok(s) => s,
                Err(e) => e,
            }
        }
        [op @ ("rexpr" | "rstmts"), src, att] => {
            let Some(src) = unhex_str(src) else { return bad() };
            let mode = if *op == "rexpr" { Mode::Expression } else { Mode::Module };
            match spans(&src, mode) {
                Ok(s) if s == *att => {}
                _ => return "stale-tokens".into(),
            }
            match parse_starts_at(&src, mode, "<pvh>", TextSize::from(0)) {
                Ok(ast::Mod::Expression(m)) => strip_ctx(astdump::dump(&m.body, false)),
                Ok(ast::Mod::Module(m)) => strip_ctx(astdump::dump(&m.body, false)),
                Ok(_) => "(unexpected-mode)".into(),
                Err(e) => err_line(&e),
            }
        }
        _ => bad(),
    }
}

fn main() {
    let t = std::thread::Builder::new()
        .stack_size(1 << 30)
        .spawn(|| proto_loop(handle))
        .unwrap();
    t.join().unwrap();
}
