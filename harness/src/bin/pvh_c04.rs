//! C04 harness: drives the REAL parser with texts built from abstract descriptions of the
//! rule-checked constructs, and prints `ok` or `(err <Kind> <offset relative to the construct>)`.
//!
//!   sig <enc> <pre> <post>        parameter list; text = pre ++ render(sig) ++ post
//!   call <enc> <pre> <post>       argument list
//!   paren <enc> <pre> <post>      parenthesised element list, construct = "(" … ")"
//!   aspat <pk> <tgt> <pre> <post> `<pattern> as <target>`
//!   brackets <raw|sep> <word>     bracket word (hex), `sep` puts a comma between `)(`-like neighbours
//!   indent <enc>                  indentation script: lines `<ws>:<kind>` joined by `,`, ws over t/s
//!   num <hex>                     text over the numeral alphabet, parsed as a module
//!   lexerr <hex>                  parse; only lexical errors are reported, everything else `nolex`
//!   chr <codepoint> <0|1>         lexerr of `x<c>y` / `x<c>=y`
//!   cont <hex tail>               lexerr of `x = 1 + \<tail>`
//!   strlex <hex>                  text over ' " a \ newline, parsed as a module
//!   softkw <hex line>             first token of `match<line>`: `keyword` / `name` (line over s : ( ) l $)
//!   parse <hex>                   parse (module), `ok` / `(err Kind off)` absolute offset
//!   site <rule> <lo> <hi> <hex edited> <hex original>   result for the edited text + ` base=ok|rejected`
//!   fstr <hex body>               parse `f'<body>'`, offset relative to the body start
//!   strs <enc> <pre> <post>       implicit concatenation of literal kinds (b/s/f/u/r/R/F)
//!   bytes <hex body> <pre> <post> `b'<body>'`, offset relative to the body start
//!   byteslit <prefix> <s|d|S|D> <hex body> <pre> <post>   `<prefix><quote><body><quote>`, same
//!
//! Error KIND is coarse (enum variants only, never message text).
use pvh::*;
use rustpython_parser::lexer::LexicalErrorType;
use rustpython_parser::{parse, Mode, ParseError, ParseErrorType};

fn kind_of(e: &ParseErrorType) -> String {
    if e.is_tab_error() {
        return "Tab".into();
    }
    if e.is_indentation_error() {
        return "Indentation".into();
    }
    match e {
        ParseErrorType::Eof => "Eof".into(),
        ParseErrorType::ExtraToken(_) => "Syntax".into(),
        ParseErrorType::InvalidToken => "Syntax".into(),
        ParseErrorType::UnrecognizedToken(_, _) => "Syntax".into(),
        ParseErrorType::Lexical(l) => match l {
            LexicalErrorType::StringError => "StringError".into(),
            LexicalErrorType::UnicodeError => "UnicodeError".into(),
            LexicalErrorType::NestingError => "Nesting".into(),
            LexicalErrorType::IndentationError => "Indentation".into(),
            LexicalErrorType::TabError => "Tab".into(),
            LexicalErrorType::TabsAfterSpaces => "Tab".into(),
            LexicalErrorType::DefaultArgumentError => "DefaultOrder".into(),
            LexicalErrorType::DuplicateArgumentError(_) => "DuplicateArgument".into(),
            LexicalErrorType::PositionalArgumentError => "PositionalAfterKeyword".into(),
            LexicalErrorType::UnpackedArgumentError => "UnpackAfterKeywordUnpack".into(),
            LexicalErrorType::DuplicateKeywordArgumentError(_) => "DuplicateKeyword".into(),
            LexicalErrorType::UnrecognizedToken { .. } => "UnrecognizedChar".into(),
            LexicalErrorType::FStringError(f) => {
                let d = format!("{:?}", f);
                let head: String = d
                    .chars()
                    .take_while(|c| c.is_ascii_alphanumeric() || *c == '_')
                    .collect();
                format!("FString.{}", head)
            }
            LexicalErrorType::LineContinuationError => "LineContinuation".into(),
            LexicalErrorType::Eof => "Eof".into(),
            LexicalErrorType::OtherError(_) => "Other".into(),
        },
    }
}

fn is_lexical(e: &ParseErrorType) -> bool {
    matches!(e, ParseErrorType::Lexical(_))
}

/// only lexical errors are reported; `nolex` otherwise (accepted or rejected by the grammar)
fn lexerr(t: &str) -> String {
    match guard(|| run(t)) {
        None => "(panic)".into(),
        Some(Err(e)) if is_lexical(&e.error) => {
            format!("(err {} {})", kind_of(&e.error), u32::from(e.offset))
        }
        Some(_) => "nolex".into(),
    }
}

fn run(text: &str) -> Result<(), ParseError> {
    parse(text, Mode::Module, "<pvh>").map(|_| ())
}

/// parse `pre ++ mid ++ post`; offsets are reported relative to the start of `mid`
fn judge(pre: &str, mid: &str, post: &str) -> String {
    let text = format!("{}{}{}", pre, mid, post);
    match guard(|| run(&text)) {
        None => "(panic)".into(),
        Some(Ok(())) => "ok".into(),
        Some(Err(e)) => {
            let off = u32::from(e.offset) as i64 - pre.len() as i64;
            format!("(err {} {})", kind_of(&e.error), off)
        }
    }
}

fn name_of(c: char) -> Option<String> {
    // name ids: digits 0..9 -> a..j ; `_` stays `_`
    match c {
        '0'..='9' => Some(((b'a' + (c as u8 - b'0')) as char).to_string()),
        '_' => Some("_".to_string()),
        _ => None,
    }
}

/// parameter list encoding: items separated by `.`; each item `<k><n><d>`:
///   k in p(posonly) n(normal) v(vararg) s(bare star, n and d ignored: `s00`) k(kwonly) w(kwarg)
///   n name id digit, d 0/1 has default.   `-` is the empty list.
fn render_sig(enc: &str) -> Option<String> {
    if enc == "-" {
        return Some(String::new());
    }
    let mut items: Vec<String> = Vec::new();
    let mut last_kind = ' ';
    for it in enc.split('.') {
        let cs: Vec<char> = it.chars().collect();
        if cs.len() != 3 {
            return None;
        }
        let (k, n, d) = (cs[0], name_of(cs[1])?, cs[2] == '1');
        if last_kind == 'p' && k != 'p' {
            items.push("/".into());
        }
        let dflt = if d { "=0" } else { "" };
        match k {
            'p' | 'n' | 'k' => items.push(format!("{}{}", n, dflt)),
            'v' => items.push(format!("*{}", n)),
            's' => items.push("*".into()),
            'w' => items.push(format!("**{}", n)),
            _ => return None,
        }
        last_kind = k;
    }
    if last_kind == 'p' {
        items.push("/".into());
    }
    Some(items.join(", "))
}

/// argument list encoding: items separated by `.`: `p` positional, `s` starred, `k<id>` keyword,
/// `d` double-starred, `g` bare generator argument; `-` empty.
fn render_call(enc: &str) -> Option<String> {
    if enc == "-" {
        return Some(String::new());
    }
    let mut items: Vec<String> = Vec::new();
    for it in enc.split('.') {
        let cs: Vec<char> = it.chars().collect();
        match cs.as_slice() {
            ['p'] => items.push("x".into()),
            ['s'] => items.push("*x".into()),
            ['d'] => items.push("**x".into()),
            ['k', n] => items.push(format!("{}=0", name_of(*n)?)),
            _ => return None,
        }
    }
    Some(items.join(", "))
}

/// parenthesised list: elements `e` (plain `x`), `s` (`*x`), `d` (`**x`), optional final `,` marker `c`
fn render_paren(enc: &str) -> Option<String> {
    let mut items: Vec<String> = Vec::new();
    let mut trailing = false;
    if enc != "-" {
        for c in enc.chars() {
            if trailing {
                return None;
            }
            match c {
                'e' => items.push("x".into()),
                's' => items.push("*x".into()),
                'd' => items.push("**x".into()),
                'c' => trailing = true,
                _ => return None,
            }
        }
    }
    Some(format!(
        "({}{})",
        items.join(", "),
        if trailing { "," } else { "" }
    ))
}

const PATTERNS: [&str; 6] = ["x", "0", "0 | 1", "[x, y]", "A()", "_"];
const TARGETS: [&str; 4] = ["_", "y", "__", "_x"];

fn render_aspat(pk: &str, t: &str) -> Option<String> {
    let p = PATTERNS.get(pk.parse::<usize>().ok()?)?;
    let t = TARGETS.get(t.parse::<usize>().ok()?)?;
    Some(format!("{} as {}", p, t))
}

fn render_brackets(mode: &str, word: &str) -> Option<String> {
    let closer = |c: char| matches!(c, ')' | ']' | '}');
    let opener = |c: char| matches!(c, '(' | '[' | '{');
    let mut out = String::new();
    let mut prev = ' ';
    for c in word.chars() {
        if !(closer(c) || opener(c) || c == '\n') {
            return None;
        }
        if mode == "sep" && closer(prev) && opener(c) {
            out.push(',');
        }
        out.push(c);
        prev = c;
    }
    Some(out)
}

/// report offsets as the index into the abstract word (commas inserted by `sep` are not counted)
fn judge_brackets(mode: &str, word: &str) -> String {
    let text = match render_brackets(mode, word) {
        Some(t) => t,
        None => return "bad-request".into(),
    };
    match guard(|| run(&text)) {
        None => "(panic)".into(),
        Some(Ok(())) => "ok".into(),
        Some(Err(e)) => {
            let off = u32::from(e.offset) as usize;
            let commas = text
                .char_indices()
                .filter(|(i, c)| *i < off && *c == ',')
                .count();
            format!("(err {} {})", kind_of(&e.error), off - commas)
        }
    }
}

/// lines `<ws>:<kind>` joined by `,`; ws over t/s (`-` none); kind o `if x:` p `pass` b blank c `#`;
/// final item `n`/`N`: last line with / without newline
fn render_indent(enc: &str) -> Option<String> {
    let mut out = String::new();
    let parts: Vec<&str> = enc.split(',').collect();
    let (last, lines) = parts.split_last()?;
    let n = lines.len();
    for (i, l) in lines.iter().enumerate() {
        let (ws, kind) = l.split_once(':')?;
        if ws != "-" {
            for c in ws.chars() {
                match c {
                    't' => out.push('\t'),
                    's' => out.push(' '),
                    _ => return None,
                }
            }
        }
        match kind {
            "o" => out.push_str("if x:"),
            "p" => out.push_str("pass"),
            "b" => {}
            "c" => out.push('#'),
            _ => return None,
        }
        if i + 1 < n || *last == "n" {
            out.push('\n');
        }
    }
    Some(out)
}

fn render_strs(enc: &str) -> Option<String> {
    // each char one literal: b bytes, s plain, f f-string, u unicode-prefixed, r raw, R raw bytes
    let mut items = Vec::new();
    for c in enc.chars() {
        items.push(match c {
            'b' => "b'x'",
            's' => "'x'",
            'f' => "f'x'",
            'u' => "u'x'",
            'r' => "r'x'",
            'R' => "rb'x'",
            'F' => "rf'x'",
            // empty literals: an empty f-string contributes no piece, an empty plain / bytes literal an empty one
            'e' => "''",
            'E' => "f''",
            'B' => "b''",
            'G' => "rf\"\"",
            'T' => "F''''''",
            _ => return None,
        });
    }
    Some(items.join(" "))
}

fn handle(ws: &[&str]) -> String {
    let bad = || "bad-request".to_string();
    let ctx = |pre: &str, post: &str| -> Option<(String, String)> {
        Some((unhex_str(pre)?, unhex_str(post)?))
    };
    match ws {
        ["sig", enc, pre, post] => match (render_sig(enc), ctx(pre, post)) {
            (Some(m), Some((a, b))) => judge(&a, &m, &b),
            _ => bad(),
        },
        ["call", enc, pre, post] => match (render_call(enc), ctx(pre, post)) {
            (Some(m), Some((a, b))) => judge(&a, &m, &b),
            _ => bad(),
        },
        ["paren", enc, pre, post] => match (render_paren(enc), ctx(pre, post)) {
            (Some(m), Some((a, b))) => judge(&a, &m, &b),
            _ => bad(),
        },
        ["aspat", pk, t, pre, post] => match (render_aspat(pk, t), ctx(pre, post)) {
            (Some(m), Some((a, b))) => judge(&a, &m, &b),
            _ => bad(),
        },
        ["brackets", mode @ ("raw" | "sep"), w] => match unhex_str(w) {
            Some(w) => judge_brackets(mode, &w),
            None => bad(),
        },
        ["indent", enc] => match render_indent(enc) {
            Some(t) => judge("", &t, ""),
            None => bad(),
        },
        ["num", t] | ["parse", t] | ["strlex", t] => match unhex_str(t) {
            Some(t) => judge("", &t, ""),
            None => bad(),
        },
        // site <rule> <lo> <hi> <edited> <original>: the edited text, and whether the original parses
        ["site", _rule, _lo, _hi, t, orig] => match (unhex_str(t), unhex_str(orig)) {
            (Some(t), Some(o)) => {
                let base = match guard(|| run(&o)) {
                    Some(Ok(())) => "ok",
                    _ => "rejected",
                };
                format!("{} base={}", judge("", &t, ""), base)
            }
            _ => bad(),
        },
        // softkw <line over s : ( ) l $>: is the head `match` of `match<line>` delivered as keyword or name?
        ["softkw", t] => match unhex_str(t) {
            Some(t) => {
                let mut text = String::from("match");
                for c in t.chars() {
                    match c {
                        's' => text.push_str(" s"),
                        'l' => text.push_str(" lambda "),
                        ':' | '(' | ')' | '$' => text.push(c),
                        _ => return bad(),
                    }
                }
                text.push('\n');
                let first = guard(|| rustpython_parser::lexer::lex(&text, Mode::Module).next());
                match first {
                    Some(Some(Ok((rustpython_parser::Tok::Match, _)))) => "keyword".into(),
                    Some(Some(Ok((rustpython_parser::Tok::Name { .. }, _)))) => "name".into(),
                    Some(_) => "other".into(),
                    None => "(panic)".into(),
                }
            }
            None => bad(),
        },
        ["lexerr", t] => match unhex_str(t) {
            Some(t) => lexerr(&t),
            None => bad(),
        },
        ["chr", cp, eq] => match cp.parse::<u32>().ok().and_then(char::from_u32) {
            Some(c) => lexerr(&format!("x{}{}y", c, if *eq == "1" { "=" } else { "" })),
            None => bad(),
        },
        ["cont", t] => match unhex_str(t) {
            Some(t) => lexerr(&format!("x = 1 + \\{}", t)),
            None => bad(),
        },
        ["fstr", body] => match unhex_str(body) {
            Some(b) => judge("f'", &b, "'"),
            None => bad(),
        },
        ["strs", enc, pre, post] => match (render_strs(enc), ctx(pre, post)) {
            (Some(m), Some((a, b))) => judge(&a, &m, &b),
            _ => bad(),
        },
        // byteslit <prefix b|rb|br|B|Rb..> <quote s|d|S|D> <body> <pre> <post>
        ["byteslit", pfx, q, body, pre, post] => {
            let quote = match *q {
                "s" => "'",
                "d" => "\"",
                "S" => "'''",
                "D" => "\"\"\"",
                _ => return bad(),
            };
            if !pfx.chars().all(|c| "bBrR".contains(c)) {
                return bad();
            }
            match (unhex_str(body), ctx(pre, post)) {
                (Some(m), Some((a, b))) => judge(
                    &format!("{}{}{}", a, pfx, quote),
                    &m,
                    &format!("{}{}", quote, b),
                ),
                _ => bad(),
            }
        }
        ["bytes", body, pre, post] => match (unhex_str(body), ctx(pre, post)) {
            (Some(m), Some((a, b))) => judge(&format!("{}b'", a), &m, &format!("'{}", b)),
            _ => bad(),
        },
        _ => bad(),
    }
}

fn main() {
    proto_loop(handle);
}
