//! C19 harness: printf-style (%) templates of the real `rustpython-format::cformat`.
//!
//! requests (every text/bytes argument is lower-case hex, `-` = empty):
//!   csplit <t|b> <template>
//!       t: `CFormatString::from_str`, b: `CFormatBytes::parse_from_bytes`
//!       -> `ok <part>;<part>... chk=<count>,<0|1>` | `ok ... chk=none` | `err <kind> <index>`
//!          part  = `L<index>:<hex literal>` | `S<index>:<spec>`
//!          spec  = `<key>:<flags>:<width>:<precision>:<type tag>:<format_char code point>`
//!          key   = `~` (none) | `k<hex of the UTF-8 key String>`
//!          flags = decimal of the CConversionFlags bits
//!          width = `~` | `*` | n          precision = `~` | `.` | `*` | n
//!          kind  = key | modulo | incomplete | toobig | unsupported:<code point>
//!   cspec <spec text>          `CFormatSpec::from_str` -> `ok <spec>` | `err <kind> <index>`
//!   cfmt <spec text> <i|f|s|c|y> <value>
//!       i: decimal big integer -> format_number     f: 16 hex digits (f64 bits) -> format_float
//!       s: hex UTF-8 text -> format_string          c: decimal code point -> format_char
//!       y: hex bytes -> format_bytes
//!       -> `ok <hex result>` | `err <kind> <index>` (spec does not parse) | `panic` | `mismatch`
//!          (`mismatch`: the value kind does not fit the conversion type; the library documents that
//!           the caller must ensure this, so the call is not made)
//!   crender <t|b> <template> <int> <f64 bits> <str> <repr> <ascii> <bytes>
//!       parse the template and format EVERY specifier with the one value given in the view its
//!       conversion type asks for (d i u o x X: the integer; e E f F g G: the double; c: the integer as
//!       a character / byte; text s r a: the three texts; bytes s b: the bytes, bytes r a: the ascii text),
//!       concatenate literals and formatted pieces
//!       -> `ok <hex result> keys=<k>,<k>..` | `err <kind> <index>` | `panic` |
//!          `skip <why>` (star quantities, mixed keyed/unkeyed specifiers, %c value not a character,
//!          text-mode %b: outside what the library formats by itself)
use malachite_bigint::BigInt;
use pvh::*;
use rustpython_format::cformat::*;
use rustpython_format::FormatConversion;
use rustpython_literal::format::Case;
use std::str::FromStr;

fn kind(e: &CFormatErrorType) -> String {
    match e {
        CFormatErrorType::UnmatchedKeyParentheses => "key".into(),
        CFormatErrorType::MissingModuloSign => "modulo".into(),
        CFormatErrorType::UnsupportedFormatChar(c) => format!("unsupported:{}", *c as u32),
        CFormatErrorType::IncompleteFormat => "incomplete".into(),
        CFormatErrorType::IntTooBig => "toobig".into(),
    }
}

fn type_tag(t: &CFormatType) -> &'static str {
    match t {
        CFormatType::Number(CNumberType::Decimal) => "dec",
        CFormatType::Number(CNumberType::Octal) => "oct",
        CFormatType::Number(CNumberType::Hex(Case::Lower)) => "hexl",
        CFormatType::Number(CNumberType::Hex(Case::Upper)) => "hexu",
        CFormatType::Float(CFloatType::Exponent(Case::Lower)) => "expl",
        CFormatType::Float(CFloatType::Exponent(Case::Upper)) => "expu",
        CFormatType::Float(CFloatType::PointDecimal(Case::Lower)) => "fixl",
        CFormatType::Float(CFloatType::PointDecimal(Case::Upper)) => "fixu",
        CFormatType::Float(CFloatType::General(Case::Lower)) => "genl",
        CFormatType::Float(CFloatType::General(Case::Upper)) => "genu",
        CFormatType::Character => "chr",
        CFormatType::String(FormatConversion::Str) => "str",
        CFormatType::String(FormatConversion::Repr) => "repr",
        CFormatType::String(FormatConversion::Ascii) => "ascii",
        CFormatType::String(FormatConversion::Bytes) => "bytes",
    }
}

fn quantity(q: &CFormatQuantity) -> String {
    match q {
        CFormatQuantity::Amount(n) => n.to_string(),
        CFormatQuantity::FromValuesTuple => "*".into(),
    }
}

fn show_spec(s: &CFormatSpec) -> String {
    let key = match &s.mapping_key {
        None => "~".to_string(),
        Some(k) => format!("k{}", hex(k.as_bytes())),
    };
    let width = match &s.min_field_width {
        None => "~".to_string(),
        Some(q) => quantity(q),
    };
    let prec = match &s.precision {
        None => "~".to_string(),
        Some(CFormatPrecision::Dot) => ".".to_string(),
        Some(CFormatPrecision::Quantity(q)) => quantity(q),
    };
    format!(
        "{}:{}:{}:{}:{}:{}",
        key,
        s.flags.bits(),
        width,
        prec,
        type_tag(&s.format_type),
        s.format_char as u32
    )
}

fn show_err(e: &CFormatError) -> String {
    format!("err {} {}", kind(&e.typ), e.index)
}

fn show_check(c: Option<(usize, bool)>) -> String {
    match c {
        None => "none".into(),
        Some((n, m)) => format!("{},{}", n, m as u8),
    }
}

fn csplit_text(t: &str) -> String {
    match CFormatString::from_str(t) {
        Err(e) => show_err(&e),
        Ok(f) => {
            let parts: Vec<String> = f
                .iter()
                .map(|(i, p)| match p {
                    CFormatPart::Literal(l) => format!("L{}:{}", i, hex(l.as_bytes())),
                    CFormatPart::Spec(s) => format!("S{}:{}", i, show_spec(s)),
                })
                .collect();
            format!("ok {} chk={}", parts.join(";"), show_check(f.check_specifiers()))
        }
    }
}

fn csplit_bytes(t: &[u8]) -> String {
    match CFormatBytes::parse_from_bytes(t) {
        Err(e) => show_err(&e),
        Ok(f) => {
            let parts: Vec<String> = f
                .iter()
                .map(|(i, p)| match p {
                    CFormatPart::Literal(l) => format!("L{}:{}", i, hex(l)),
                    CFormatPart::Spec(s) => format!("S{}:{}", i, show_spec(s)),
                })
                .collect();
            format!("ok {} chk={}", parts.join(";"), show_check(f.check_specifiers()))
        }
    }
}

fn parse_spec(t: &str) -> Result<CFormatSpec, String> {
    CFormatSpec::from_str(t).map_err(|(k, i)| format!("err {} {}", kind(&k), i))
}

fn is_number(s: &CFormatSpec) -> bool {
    matches!(s.format_type, CFormatType::Number(_))
}
fn is_float(s: &CFormatSpec) -> bool {
    matches!(s.format_type, CFormatType::Float(_))
}
fn is_string(s: &CFormatSpec) -> bool {
    matches!(s.format_type, CFormatType::String(_))
}
fn is_char(s: &CFormatSpec) -> bool {
    matches!(s.format_type, CFormatType::Character)
}

fn cfmt(spec: &str, k: &str, v: &str) -> String {
    let spec = match parse_spec(spec) {
        Ok(s) => s,
        Err(e) => return e,
    };
    let bad = || "bad-request".to_string();
    let out: Option<Vec<u8>> = match k {
        "i" => {
            let n = match BigInt::from_str(v) {
                Ok(n) => n,
                Err(_) => return bad(),
            };
            if !is_number(&spec) {
                return "mismatch".into();
            }
            guard(|| spec.format_number(&n).into_bytes())
        }
        "f" => {
            let bits = match u64::from_str_radix(v, 16) {
                Ok(b) => b,
                Err(_) => return bad(),
            };
            if !is_float(&spec) {
                return "mismatch".into();
            }
            guard(|| spec.format_float(f64::from_bits(bits)).into_bytes())
        }
        "s" => {
            let s = match unhex_str(v) {
                Some(s) => s,
                None => return bad(),
            };
            if !is_string(&spec) {
                return "mismatch".into();
            }
            guard(|| spec.format_string(s).into_bytes())
        }
        "c" => {
            let c = match v.parse::<u32>().ok().and_then(char::from_u32) {
                Some(c) => c,
                None => return bad(),
            };
            if !is_char(&spec) {
                return "mismatch".into();
            }
            guard(|| spec.format_char(c).into_bytes())
        }
        "y" => {
            let b = match unhex(v) {
                Some(b) => b,
                None => return bad(),
            };
            if !is_string(&spec) {
                return "mismatch".into();
            }
            guard(|| spec.format_bytes(&b))
        }
        _ => return bad(),
    };
    match out {
        Some(b) => format!("ok {}", hex(&b)),
        None => "panic".into(),
    }
}

struct Views {
    int: BigInt,
    float: f64,
    s: String,
    repr: String,
    ascii: String,
    bytes: Vec<u8>,
}

fn has_star(s: &CFormatSpec) -> bool {
    matches!(s.min_field_width, Some(CFormatQuantity::FromValuesTuple))
        || matches!(
            s.precision,
            Some(CFormatPrecision::Quantity(CFormatQuantity::FromValuesTuple))
        )
}

/// one specifier formatted with the view of the value its type asks for
fn render_spec(spec: &CFormatSpec, bytes_mode: bool, v: &Views) -> Result<Vec<u8>, String> {
    if has_star(spec) {
        return Err("skip star".into());
    }
    match &spec.format_type {
        CFormatType::Number(_) => Ok(spec.format_number(&v.int).into_bytes()),
        CFormatType::Float(_) => Ok(spec.format_float(v.float).into_bytes()),
        CFormatType::Character => {
            let n: Option<u32> = u32::try_from(&v.int).ok();
            if bytes_mode {
                match n {
                    Some(n) if n < 256 => Ok(spec
                        .format_char(char::from_u32(n).unwrap())
                        .chars()
                        .map(|c| c as u32 as u8)
                        .collect()),
                    _ => Err("skip char".into()),
                }
            } else {
                match n.and_then(char::from_u32) {
                    Some(c) => Ok(spec.format_char(c).into_bytes()),
                    None => Err("skip char".into()),
                }
            }
        }
        CFormatType::String(conv) => {
            if bytes_mode {
                match conv {
                    FormatConversion::Str | FormatConversion::Bytes => Ok(spec.format_bytes(&v.bytes)),
                    _ => Ok(spec.format_bytes(v.ascii.as_bytes())),
                }
            } else {
                match conv {
                    FormatConversion::Str => Ok(spec.format_string(v.s.clone()).into_bytes()),
                    FormatConversion::Repr => Ok(spec.format_string(v.repr.clone()).into_bytes()),
                    FormatConversion::Ascii => Ok(spec.format_string(v.ascii.clone()).into_bytes()),
                    FormatConversion::Bytes => Err("skip text-b".into()),
                }
            }
        }
    }
}

fn crender(mode: &str, tmpl: &[u8], v: &Views) -> String {
    let mut out: Vec<u8> = Vec::new();
    let mut keys: Vec<String> = Vec::new();
    let mut visit = |spec: &CFormatSpec, bytes_mode: bool, out: &mut Vec<u8>| -> Result<(), String> {
        if let Some(k) = &spec.mapping_key {
            keys.push(hex(k.as_bytes()));
        }
        out.extend(render_spec(spec, bytes_mode, v)?);
        Ok(())
    };
    if mode == "t" {
        let text = match std::str::from_utf8(tmpl) {
            Ok(t) => t,
            Err(_) => return "bad-request".into(),
        };
        let f = match CFormatString::from_str(text) {
            Ok(f) => f,
            Err(e) => return show_err(&e),
        };
        if f.check_specifiers().is_none() {
            return "skip mixed".into();
        }
        for (_, p) in f.iter() {
            match p {
                CFormatPart::Literal(l) => out.extend_from_slice(l.as_bytes()),
                CFormatPart::Spec(s) => {
                    if let Err(e) = visit(s, false, &mut out) {
                        return e;
                    }
                }
            }
        }
    } else {
        let f = match CFormatBytes::parse_from_bytes(tmpl) {
            Ok(f) => f,
            Err(e) => return show_err(&e),
        };
        if f.check_specifiers().is_none() {
            return "skip mixed".into();
        }
        for (_, p) in f.iter() {
            match p {
                CFormatPart::Literal(l) => out.extend_from_slice(l),
                CFormatPart::Spec(s) => {
                    if let Err(e) = visit(s, true, &mut out) {
                        return e;
                    }
                }
            }
        }
    }
    format!("ok {} keys={}", hex(&out), keys.join(","))
}

fn handle(ws: &[&str]) -> String {
    let bad = || "bad-request".to_string();
    match ws {
        ["csplit", "t", t] => match unhex_str(t) {
            Some(t) => guard(|| csplit_text(&t)).unwrap_or_else(|| "panic".into()),
            None => bad(),
        },
        ["csplit", "b", t] => match unhex(t) {
            Some(t) => guard(|| csplit_bytes(&t)).unwrap_or_else(|| "panic".into()),
            None => bad(),
        },
        ["cspec", t] => match unhex_str(t) {
            Some(t) => guard(|| match parse_spec(&t) {
                Ok(s) => format!("ok {}", show_spec(&s)),
                Err(e) => e,
            })
            .unwrap_or_else(|| "panic".into()),
            None => bad(),
        },
        ["cfmt", spec, k, v] => match unhex_str(spec) {
            Some(s) => guard(|| cfmt(&s, k, v)).unwrap_or_else(|| "panic".into()),
            None => bad(),
        },
        ["crender", mode, t, int, fl, s, r, a, y] if *mode == "t" || *mode == "b" => {
            let (t, int, fl, s, r, a, y) = match (
                unhex(t),
                BigInt::from_str(int),
                u64::from_str_radix(fl, 16),
                unhex_str(s),
                unhex_str(r),
                unhex_str(a),
                unhex(y),
            ) {
                (Some(t), Ok(int), Ok(fl), Some(s), Some(r), Some(a), Some(y)) => (t, int, fl, s, r, a, y),
                _ => return bad(),
            };
            let v = Views { int, float: f64::from_bits(fl), s, repr: r, ascii: a, bytes: y };
            guard(|| crender(mode, &t, &v)).unwrap_or_else(|| "panic".into())
        }
        _ => bad(),
    }
}

fn main() {
    proto_loop(handle);
}
