//! PROG harness: the REAL parser on whole programs, for the correspondence with the Lean reference
//! parser `PV.Prog.parseProgram` (lean/PV/Prog/Parse.lean, driver lean/Drv/Prog.lean).
//!
//!   toks <mode> <hex src>
//!       pre-pass: the token stream the LALRPOP parser is fed — `lexer::lex(src, mode)`, i.e. the lexer
//!       followed by the soft-keyword pass — without ranges, in the compact form documented below.
//!       The lexer is tied to its own Lean model by C05 / C10; here its output is a parameter.
//!
//!   prog <mode> <hex src> [<attachment: the tokens, for the Lean side>]
//!       `rustpython_parser::parse(src, mode)`; answer: the canonical tree (ranges, load/store tags,
//!       type_comment / type_ignores erased; identifiers hex; per-parameter defaults) or `parse-error`.
//!       Error kinds and offsets are NOT observed.
//!
//!   rt <mode> <hex src> <attachment> <hex rendered text> [<attachment of the rendered text>]
//!       the printer `PV.Prog.render` against the real parser (stream `render-roundtrip`): the rendered text (produced
//!       by the Lean driver from the tree of `src`) is parsed with the real parser; answer
//!       `eq=<1 iff its tree equals the tree of src> text=1 toks=1 infrag=1 tree=<canonical tree of the rendered text>`
//!       (`text` / `toks` / `infrag` are the driver's own checks; the constant `1` here makes a failed one a difference).
//!
//! mode: m = Module, i = Interactive, e = Expression.
//!
//! Token form (items separated by `,`):
//!   n<hex>  Name            i<decimal>  Int        f<16 hex>  Float (bits)     c<16 hex>  Complex (imag bits)
//!   s<k><t><hex>  String: k = s String, f FString, b Bytes, r RawString, R RawFString, B RawBytes, u Unicode;
//!                 t = 1 triple quoted; hex = the token's value (source text between the quotes)
//!   k<word> keyword (`kdef`, `kmatch`, `kTrue` …)        o<hex of the spelling> operator / delimiter
//!   N Newline   I Indent   D Dedent     E a lexical error ends the stream
//!
//! The expression part of the tree is printed exactly as pvh_c11 prints it (lean/Drv/C11.lean `dump`).
use pvh::*;
use rustpython_ast as ast;
use rustpython_ast::text_size::TextRange;
use rustpython_parser::lexer;
use rustpython_parser::{StringKind, Tok};
use rustpython_parser::Mode;

type Expr = ast::Expr<TextRange>;
type Stmt = ast::Stmt<TextRange>;
type Pattern = ast::Pattern<TextRange>;

fn hx(s: &str) -> String {
    hex(s.as_bytes())
}

// ------------------------------------------------------------------ expressions (as pvh_c11)

fn opt_expr(e: &Option<Box<Expr>>, out: &mut String) {
    match e {
        Some(e) => dump(e, out),
        None => out.push('~'),
    }
}

fn dump_list(es: &[Expr], out: &mut String) {
    for e in es {
        out.push(' ');
        dump(e, out);
    }
}

fn dump_params(ps: &[ast::ArgWithDefault<TextRange>], out: &mut String) {
    for p in ps {
        out.push_str(" (P ");
        out.push_str(&hx(p.def.arg.as_str()));
        if p.def.annotation.is_some() {
            out.push_str(":annotated");
        }
        out.push(' ');
        opt_expr(&p.default, out);
        out.push(')');
    }
}

fn dump_arg(a: &Option<Box<ast::Arg<TextRange>>>, out: &mut String) {
    match a {
        Some(a) => {
            out.push_str(&hx(a.arg.as_str()));
            if a.annotation.is_some() {
                out.push_str(":annotated");
            }
        }
        None => out.push('~'),
    }
}

fn dump_comps(gs: &[ast::Comprehension<TextRange>], out: &mut String) {
    for g in gs {
        out.push_str(" (Comp ");
        dump(&g.target, out);
        out.push(' ');
        dump(&g.iter, out);
        out.push_str(if g.is_async { " 1" } else { " 0" });
        dump_list(&g.ifs, out);
        out.push(')');
    }
}

fn dump_const(c: &ast::Constant, kind: &Option<String>, out: &mut String) {
    use ast::Constant::*;
    match c {
        None => out.push_str("(Const none)"),
        Bool(true) => out.push_str("(Const true)"),
        Bool(false) => out.push_str("(Const false)"),
        Ellipsis => out.push_str("(Const ellipsis)"),
        Int(i) => out.push_str(&format!("(Const int {})", i)),
        Float(f) => out.push_str(&format!("(Const float {:016x})", f.to_bits())),
        Complex { real, imag } => {
            if real.to_bits() == 0 {
                out.push_str(&format!("(Const imag {:016x})", imag.to_bits()))
            } else {
                out.push_str(&format!("(Const complex {:016x} {:016x})", real.to_bits(), imag.to_bits()))
            }
        }
        Str(s) => {
            let k = match kind {
                Some(k) if k == "u" => "u".to_string(),
                Some(k) => format!("kind:{}", hx(k)),
                Option::None => "~".to_string(),
            };
            out.push_str(&format!("(Const str {} {})", hx(s), k))
        }
        Bytes(b) => out.push_str(&format!("(Const bytes {})", hex(b))),
        Tuple(_) => out.push_str("(Const tuple)"),
    }
}

fn dump_keywords(ks: &[ast::Keyword<TextRange>], out: &mut String) {
    for k in ks {
        out.push_str(" (");
        match &k.arg {
            Some(a) => out.push_str(&hx(a.as_str())),
            None => out.push('~'),
        }
        out.push(' ');
        dump(&k.value, out);
        out.push(')');
    }
}

fn dump(e: &Expr, out: &mut String) {
    match e {
        Expr::Name(n) => {
            out.push_str("(Name ");
            out.push_str(&hx(n.id.as_str()));
            out.push(')');
        }
        Expr::Constant(c) => dump_const(&c.value, &c.kind, out),
        Expr::BoolOp(b) => {
            out.push_str(match b.op {
                ast::BoolOp::And => "(BoolOp And",
                ast::BoolOp::Or => "(BoolOp Or",
            });
            dump_list(&b.values, out);
            out.push(')');
        }
        Expr::NamedExpr(n) => {
            out.push_str("(NamedExpr ");
            dump(&n.target, out);
            out.push(' ');
            dump(&n.value, out);
            out.push(')');
        }
        Expr::BinOp(b) => {
            out.push_str(&format!("(BinOp {:?} ", b.op));
            dump(&b.left, out);
            out.push(' ');
            dump(&b.right, out);
            out.push(')');
        }
        Expr::UnaryOp(u) => {
            out.push_str(&format!("(UnaryOp {:?} ", u.op));
            dump(&u.operand, out);
            out.push(')');
        }
        Expr::Lambda(l) => {
            out.push_str("(Lambda (posonly");
            dump_params(&l.args.posonlyargs, out);
            out.push_str(") (args");
            dump_params(&l.args.args, out);
            out.push_str(") (vararg ");
            dump_arg(&l.args.vararg, out);
            out.push_str(") (kwonly");
            dump_params(&l.args.kwonlyargs, out);
            out.push_str(") (kwarg ");
            dump_arg(&l.args.kwarg, out);
            out.push_str(") ");
            dump(&l.body, out);
            out.push(')');
        }
        Expr::IfExp(i) => {
            out.push_str("(IfExp ");
            dump(&i.test, out);
            out.push(' ');
            dump(&i.body, out);
            out.push(' ');
            dump(&i.orelse, out);
            out.push(')');
        }
        Expr::Dict(d) => {
            out.push_str("(Dict");
            if d.keys.len() != d.values.len() {
                out.push_str(" :length-mismatch");
            }
            for (k, v) in d.keys.iter().zip(d.values.iter()) {
                out.push_str(" (");
                match k {
                    Some(k) => dump(k, out),
                    None => out.push('~'),
                }
                out.push(' ');
                dump(v, out);
                out.push(')');
            }
            out.push(')');
        }
        Expr::Set(s) => {
            out.push_str("(Set");
            dump_list(&s.elts, out);
            out.push(')');
        }
        Expr::ListComp(c) => {
            out.push_str("(ListComp ");
            dump(&c.elt, out);
            dump_comps(&c.generators, out);
            out.push(')');
        }
        Expr::SetComp(c) => {
            out.push_str("(SetComp ");
            dump(&c.elt, out);
            dump_comps(&c.generators, out);
            out.push(')');
        }
        Expr::DictComp(c) => {
            out.push_str("(DictComp ");
            dump(&c.key, out);
            out.push(' ');
            dump(&c.value, out);
            dump_comps(&c.generators, out);
            out.push(')');
        }
        Expr::GeneratorExp(c) => {
            out.push_str("(GeneratorExp ");
            dump(&c.elt, out);
            dump_comps(&c.generators, out);
            out.push(')');
        }
        Expr::Await(a) => {
            out.push_str("(Await ");
            dump(&a.value, out);
            out.push(')');
        }
        Expr::Yield(y) => {
            out.push_str("(Yield ");
            opt_expr(&y.value, out);
            out.push(')');
        }
        Expr::YieldFrom(y) => {
            out.push_str("(YieldFrom ");
            dump(&y.value, out);
            out.push(')');
        }
        Expr::Compare(c) => {
            out.push_str("(Compare ");
            dump(&c.left, out);
            if c.ops.len() != c.comparators.len() {
                out.push_str(" :length-mismatch");
            }
            for (o, x) in c.ops.iter().zip(c.comparators.iter()) {
                out.push_str(&format!(" ({:?} ", o));
                dump(x, out);
                out.push(')');
            }
            out.push(')');
        }
        Expr::Call(c) => {
            out.push_str("(Call ");
            dump(&c.func, out);
            out.push_str(" (args");
            dump_list(&c.args, out);
            out.push_str(") (kws");
            dump_keywords(&c.keywords, out);
            out.push_str("))");
        }
        Expr::FormattedValue(f) => {
            out.push_str("(FormattedValue ");
            dump(&f.value, out);
            let c = match f.conversion {
                ast::ConversionFlag::None => 0,
                other => other as i8 as i32,
            };
            out.push_str(&format!(" {} ", c));
            opt_expr(&f.format_spec, out);
            out.push(')');
        }
        Expr::JoinedStr(j) => {
            out.push_str("(JoinedStr");
            dump_list(&j.values, out);
            out.push(')');
        }
        Expr::Attribute(a) => {
            out.push_str("(Attribute ");
            dump(&a.value, out);
            out.push(' ');
            out.push_str(&hx(a.attr.as_str()));
            out.push(')');
        }
        Expr::Subscript(s) => {
            out.push_str("(Subscript ");
            dump(&s.value, out);
            out.push(' ');
            dump(&s.slice, out);
            out.push(')');
        }
        Expr::Starred(s) => {
            out.push_str("(Starred ");
            dump(&s.value, out);
            out.push(')');
        }
        Expr::List(l) => {
            out.push_str("(List");
            dump_list(&l.elts, out);
            out.push(')');
        }
        Expr::Tuple(t) => {
            out.push_str("(Tuple");
            dump_list(&t.elts, out);
            out.push(')');
        }
        Expr::Slice(s) => {
            out.push_str("(Slice ");
            opt_expr(&s.lower, out);
            out.push(' ');
            opt_expr(&s.upper, out);
            out.push(' ');
            opt_expr(&s.step, out);
            out.push(')');
        }
    }
}

// ------------------------------------------------------------------ statements

fn opt_name(n: &Option<ast::Identifier>, out: &mut String) {
    match n {
        Some(n) => out.push_str(&hx(n.as_str())),
        None => out.push('~'),
    }
}

fn dump_body(tag: &str, ss: &[Stmt], out: &mut String) {
    out.push_str(" (");
    out.push_str(tag);
    for s in ss {
        out.push(' ');
        dump_stmt(s, out);
    }
    out.push(')');
}

fn dump_exprs(tag: &str, es: &[Expr], out: &mut String) {
    out.push_str(" (");
    out.push_str(tag);
    dump_list(es, out);
    out.push(')');
}

fn dump_typed_arg(tag: &str, a: &ast::Arg<TextRange>, out: &mut String) {
    out.push('(');
    out.push_str(tag);
    out.push(' ');
    out.push_str(&hx(a.arg.as_str()));
    out.push(' ');
    opt_expr(&a.annotation, out);
    if a.type_comment.is_some() {
        out.push_str(" :type-comment");
    }
}

fn dump_typed_params(tag: &str, ps: &[ast::ArgWithDefault<TextRange>], out: &mut String) {
    out.push_str(" (");
    out.push_str(tag);
    for p in ps {
        out.push(' ');
        dump_typed_arg("P", &p.def, out);
        out.push(' ');
        opt_expr(&p.default, out);
        out.push(')');
    }
    out.push(')');
}

fn dump_opt_arg(tag: &str, a: &Option<Box<ast::Arg<TextRange>>>, out: &mut String) {
    out.push_str(" (");
    out.push_str(tag);
    out.push(' ');
    match a {
        Some(a) => {
            dump_typed_arg("A", a, out);
            out.push(')');
        }
        None => out.push('~'),
    }
    out.push(')');
}

fn dump_arguments(a: &ast::Arguments<TextRange>, out: &mut String) {
    out.push_str("(Args");
    dump_typed_params("posonly", &a.posonlyargs, out);
    dump_typed_params("args", &a.args, out);
    dump_opt_arg("vararg", &a.vararg, out);
    dump_typed_params("kwonly", &a.kwonlyargs, out);
    dump_opt_arg("kwarg", &a.kwarg, out);
    out.push(')');
}

fn dump_tparams(tps: &[ast::TypeParam<TextRange>], out: &mut String) {
    out.push_str(" (tparams");
    for tp in tps {
        match tp {
            ast::TypeParam::TypeVar(t) => {
                out.push_str(" (TypeVar ");
                out.push_str(&hx(t.name.as_str()));
                out.push(' ');
                opt_expr(&t.bound, out);
                out.push(')');
            }
            ast::TypeParam::ParamSpec(t) => {
                out.push_str(" (ParamSpec ");
                out.push_str(&hx(t.name.as_str()));
                out.push(')');
            }
            ast::TypeParam::TypeVarTuple(t) => {
                out.push_str(" (TypeVarTuple ");
                out.push_str(&hx(t.name.as_str()));
                out.push(')');
            }
        }
    }
    out.push(')');
}

fn dump_patterns(tag: &str, ps: &[Pattern], out: &mut String) {
    out.push_str(" (");
    out.push_str(tag);
    for p in ps {
        out.push(' ');
        dump_pattern(p, out);
    }
    out.push(')');
}

fn dump_pattern(p: &Pattern, out: &mut String) {
    match p {
        Pattern::MatchValue(v) => {
            out.push_str("(MatchValue ");
            dump(&v.value, out);
            out.push(')');
        }
        Pattern::MatchSingleton(v) => {
            out.push_str("(MatchSingleton ");
            dump_const(&v.value, &None, out);
            out.push(')');
        }
        Pattern::MatchSequence(v) => {
            out.push_str("(MatchSequence");
            for q in &v.patterns {
                out.push(' ');
                dump_pattern(q, out);
            }
            out.push(')');
        }
        Pattern::MatchMapping(v) => {
            out.push_str("(MatchMapping");
            dump_exprs("keys", &v.keys, out);
            dump_patterns("pats", &v.patterns, out);
            out.push(' ');
            opt_name(&v.rest, out);
            out.push(')');
        }
        Pattern::MatchClass(v) => {
            out.push_str("(MatchClass ");
            dump(&v.cls, out);
            dump_patterns("pats", &v.patterns, out);
            out.push_str(" (kwa");
            for n in &v.kwd_attrs {
                out.push(' ');
                out.push_str(&hx(n.as_str()));
            }
            out.push(')');
            dump_patterns("kwp", &v.kwd_patterns, out);
            out.push(')');
        }
        Pattern::MatchStar(v) => {
            out.push_str("(MatchStar ");
            opt_name(&v.name, out);
            out.push(')');
        }
        Pattern::MatchAs(v) => {
            out.push_str("(MatchAs ");
            match &v.pattern {
                Some(q) => dump_pattern(q, out),
                None => out.push('~'),
            }
            out.push(' ');
            opt_name(&v.name, out);
            out.push(')');
        }
        Pattern::MatchOr(v) => {
            out.push_str("(MatchOr");
            for q in &v.patterns {
                out.push(' ');
                dump_pattern(q, out);
            }
            out.push(')');
        }
    }
}

fn dump_funcdef(
    tag: &str,
    name: &ast::Identifier,
    args: &ast::Arguments<TextRange>,
    body: &[Stmt],
    decos: &[Expr],
    returns: &Option<Box<Expr>>,
    tps: &[ast::TypeParam<TextRange>],
    out: &mut String,
) {
    out.push('(');
    out.push_str(tag);
    out.push(' ');
    out.push_str(&hx(name.as_str()));
    out.push(' ');
    dump_arguments(args, out);
    dump_body("body", body, out);
    dump_exprs("decos", decos, out);
    out.push(' ');
    opt_expr(returns, out);
    dump_tparams(tps, out);
    out.push(')');
}

fn dump_for(tag: &str, target: &Expr, iter: &Expr, body: &[Stmt], orelse: &[Stmt], out: &mut String) {
    out.push('(');
    out.push_str(tag);
    out.push(' ');
    dump(target, out);
    out.push(' ');
    dump(iter, out);
    dump_body("body", body, out);
    dump_body("orelse", orelse, out);
    out.push(')');
}

fn dump_with(tag: &str, items: &[ast::WithItem<TextRange>], body: &[Stmt], out: &mut String) {
    out.push('(');
    out.push_str(tag);
    out.push_str(" (items");
    for it in items {
        out.push_str(" (");
        dump(&it.context_expr, out);
        out.push(' ');
        opt_expr(&it.optional_vars, out);
        out.push(')');
    }
    out.push(')');
    dump_body("body", body, out);
    out.push(')');
}

fn dump_try(
    tag: &str,
    body: &[Stmt],
    handlers: &[ast::ExceptHandler<TextRange>],
    orelse: &[Stmt],
    finalbody: &[Stmt],
    out: &mut String,
) {
    out.push('(');
    out.push_str(tag);
    dump_body("body", body, out);
    out.push_str(" (handlers");
    for h in handlers {
        let ast::ExceptHandler::ExceptHandler(h) = h;
        out.push_str(" (H ");
        opt_expr(&h.type_, out);
        out.push(' ');
        opt_name(&h.name, out);
        dump_body("body", &h.body, out);
        out.push(')');
    }
    out.push(')');
    dump_body("orelse", orelse, out);
    dump_body("finalbody", finalbody, out);
    out.push(')');
}

fn dump_aliases(names: &[ast::Alias<TextRange>], out: &mut String) {
    for a in names {
        out.push_str(" (A ");
        out.push_str(&hx(a.name.as_str()));
        out.push(' ');
        opt_name(&a.asname, out);
        out.push(')');
    }
}

fn dump_names(tag: &str, names: &[ast::Identifier], out: &mut String) {
    out.push('(');
    out.push_str(tag);
    for n in names {
        out.push(' ');
        out.push_str(&hx(n.as_str()));
    }
    out.push(')');
}

fn dump_stmt(s: &Stmt, out: &mut String) {
    match s {
        Stmt::FunctionDef(d) => dump_funcdef(
            "FunctionDef", &d.name, &d.args, &d.body, &d.decorator_list, &d.returns, &d.type_params, out,
        ),
        Stmt::AsyncFunctionDef(d) => dump_funcdef(
            "AsyncFunctionDef", &d.name, &d.args, &d.body, &d.decorator_list, &d.returns, &d.type_params, out,
        ),
        Stmt::ClassDef(d) => {
            out.push_str("(ClassDef ");
            out.push_str(&hx(d.name.as_str()));
            dump_exprs("bases", &d.bases, out);
            out.push_str(" (kws");
            dump_keywords(&d.keywords, out);
            out.push(')');
            dump_body("body", &d.body, out);
            dump_exprs("decos", &d.decorator_list, out);
            dump_tparams(&d.type_params, out);
            out.push(')');
        }
        Stmt::Return(r) => {
            out.push_str("(Return ");
            opt_expr(&r.value, out);
            out.push(')');
        }
        Stmt::Delete(d) => {
            out.push_str("(Delete");
            dump_list(&d.targets, out);
            out.push(')');
        }
        Stmt::Assign(a) => {
            out.push_str("(Assign");
            dump_exprs("targets", &a.targets, out);
            out.push(' ');
            dump(&a.value, out);
            out.push(')');
        }
        Stmt::TypeAlias(a) => {
            out.push_str("(TypeAlias ");
            dump(&a.name, out);
            dump_tparams(&a.type_params, out);
            out.push(' ');
            dump(&a.value, out);
            out.push(')');
        }
        Stmt::AugAssign(a) => {
            out.push_str("(AugAssign ");
            dump(&a.target, out);
            out.push_str(&format!(" {:?} ", a.op));
            dump(&a.value, out);
            out.push(')');
        }
        Stmt::AnnAssign(a) => {
            out.push_str("(AnnAssign ");
            dump(&a.target, out);
            out.push(' ');
            dump(&a.annotation, out);
            out.push(' ');
            opt_expr(&a.value, out);
            out.push_str(if a.simple { " 1)" } else { " 0)" });
        }
        Stmt::For(f) => dump_for("For", &f.target, &f.iter, &f.body, &f.orelse, out),
        Stmt::AsyncFor(f) => dump_for("AsyncFor", &f.target, &f.iter, &f.body, &f.orelse, out),
        Stmt::While(w) => {
            out.push_str("(While ");
            dump(&w.test, out);
            dump_body("body", &w.body, out);
            dump_body("orelse", &w.orelse, out);
            out.push(')');
        }
        Stmt::If(w) => {
            out.push_str("(If ");
            dump(&w.test, out);
            dump_body("body", &w.body, out);
            dump_body("orelse", &w.orelse, out);
            out.push(')');
        }
        Stmt::With(w) => dump_with("With", &w.items, &w.body, out),
        Stmt::AsyncWith(w) => dump_with("AsyncWith", &w.items, &w.body, out),
        Stmt::Match(m) => {
            out.push_str("(Match ");
            dump(&m.subject, out);
            for c in &m.cases {
                out.push_str(" (case ");
                dump_pattern(&c.pattern, out);
                out.push(' ');
                opt_expr(&c.guard, out);
                dump_body("body", &c.body, out);
                out.push(')');
            }
            out.push(')');
        }
        Stmt::Raise(r) => {
            out.push_str("(Raise ");
            opt_expr(&r.exc, out);
            out.push(' ');
            opt_expr(&r.cause, out);
            out.push(')');
        }
        Stmt::Try(t) => dump_try("Try", &t.body, &t.handlers, &t.orelse, &t.finalbody, out),
        Stmt::TryStar(t) => dump_try("TryStar", &t.body, &t.handlers, &t.orelse, &t.finalbody, out),
        Stmt::Assert(a) => {
            out.push_str("(Assert ");
            dump(&a.test, out);
            out.push(' ');
            opt_expr(&a.msg, out);
            out.push(')');
        }
        Stmt::Import(i) => {
            out.push_str("(Import");
            dump_aliases(&i.names, out);
            out.push(')');
        }
        Stmt::ImportFrom(i) => {
            out.push_str("(ImportFrom ");
            opt_name(&i.module, out);
            out.push_str(" (names");
            dump_aliases(&i.names, out);
            out.push_str(") ");
            match &i.level {
                Some(l) => out.push_str(&format!("{}", l.to_u32())),
                None => out.push('~'),
            }
            out.push(')');
        }
        Stmt::Global(g) => dump_names("Global", &g.names, out),
        Stmt::Nonlocal(g) => dump_names("Nonlocal", &g.names, out),
        Stmt::Expr(e) => {
            out.push_str("(Expr ");
            dump(&e.value, out);
            out.push(')');
        }
        Stmt::Pass(_) => out.push_str("(Pass)"),
        Stmt::Break(_) => out.push_str("(Break)"),
        Stmt::Continue(_) => out.push_str("(Continue)"),
    }
}

fn dump_mod(m: &ast::Mod<TextRange>) -> String {
    let mut out = String::new();
    match m {
        ast::Mod::Module(m) => {
            out.push_str("(Module");
            if !m.type_ignores.is_empty() {
                out.push_str(" :type-ignores");
            }
            for s in &m.body {
                out.push(' ');
                dump_stmt(s, &mut out);
            }
            out.push(')');
        }
        ast::Mod::Interactive(m) => {
            out.push_str("(Interactive");
            for s in &m.body {
                out.push(' ');
                dump_stmt(s, &mut out);
            }
            out.push(')');
        }
        ast::Mod::Expression(m) => {
            out.push_str("(Expression ");
            dump(&m.body, &mut out);
            out.push(')');
        }
        ast::Mod::FunctionType(_) => out.push_str("(FunctionType)"),
    }
    out
}

// ------------------------------------------------------------------ tokens

fn mode_of(c: &str) -> Option<Mode> {
    match c {
        "m" => Some(Mode::Module),
        "i" => Some(Mode::Interactive),
        "e" => Some(Mode::Expression),
        _ => None,
    }
}

fn tok_text(t: &Tok) -> String {
    match t {
        Tok::Name { name } => format!("n{}", hx(name)),
        Tok::Int { value } => format!("i{}", value),
        Tok::Float { value } => format!("f{:016x}", value.to_bits()),
        Tok::Complex { real, imag } => {
            if real.to_bits() == 0 {
                format!("c{:016x}", imag.to_bits())
            } else {
                format!("C{:016x}:{:016x}", real.to_bits(), imag.to_bits())
            }
        }
        Tok::String { value, kind, triple_quoted } => {
            let k = match kind {
                StringKind::String => 's',
                StringKind::FString => 'f',
                StringKind::Bytes => 'b',
                StringKind::RawString => 'r',
                StringKind::RawFString => 'R',
                StringKind::RawBytes => 'B',
                StringKind::Unicode => 'u',
            };
            format!("s{}{}{}", k, if *triple_quoted { 1 } else { 0 }, hx(value))
        }
        Tok::Newline => "N".to_string(),
        Tok::Indent => "I".to_string(),
        Tok::Dedent => "D".to_string(),
        Tok::EndOfFile => "Z".to_string(),
        Tok::StartModule | Tok::StartInteractive | Tok::StartExpression => "S".to_string(),
        other => {
            // keywords and operators: Display gives the spelling between single quotes
            let s = format!("{}", other);
            let sp = s.trim_matches('\'');
            if sp.chars().next().map(|c| c.is_ascii_alphabetic()).unwrap_or(false) {
                format!("k{}", sp)
            } else {
                format!("o{}", hx(sp))
            }
        }
    }
}

fn toks(mode: Mode, src: &str) -> String {
    let mut items: Vec<String> = Vec::new();
    for r in lexer::lex(src, mode) {
        match r {
            Ok((t, _)) => items.push(tok_text(&t)),
            Err(_) => {
                items.push("E".to_string());
                break;
            }
        }
    }
    if items.is_empty() {
        "-".to_string()
    } else {
        items.join(",")
    }
}

fn prog(mode: Mode, src: &str) -> String {
    match guard(|| rustpython_parser::parse(src, mode, "<prog>")) {
        Some(Ok(m)) => dump_mod(&m),
        Some(Err(_)) => "parse-error".to_string(),
        None => "(panic)".to_string(),
    }
}

fn rt(mode: Mode, src: &str, rendered: &str) -> String {
    let orig = prog(mode, src);
    if orig == "parse-error" || orig == "(panic)" {
        return "orig-parse-error".to_string();
    }
    let again = prog(mode, rendered);
    format!("eq={} text=1 toks=1 infrag=1 tree={}", if again == orig { 1 } else { 0 }, again)
}

fn handle(ws: &[&str]) -> String {
    let bad = || "bad-request".to_string();
    match ws {
        ["toks", m, s] => match (mode_of(m), unhex_str(s)) {
            (Some(m), Some(s)) => guard(|| toks(m, &s)).unwrap_or_else(|| "(panic)".to_string()),
            _ => bad(),
        },
        ["rt", m, s, _att, r, ..] => match (mode_of(m), unhex_str(s), unhex_str(r)) {
            (Some(m), Some(s), Some(r)) => rt(m, &s, &r),
            _ => bad(),
        },
        ["prog", m, s, ..] => match (mode_of(m), unhex_str(s)) {
            (Some(m), Some(s)) => prog(m, &s),
            _ => bad(),
        },
        _ => bad(),
    }
}

fn main() {
    proto_loop(handle);
}
